package main

import (
	"fmt"
	"math"

	"sigs.k8s.io/structured-merge-diff/v6/fieldpath"
	"sigs.k8s.io/structured-merge-diff/v6/schema"
	"sigs.k8s.io/structured-merge-diff/v6/typed"
	"sigs.k8s.io/structured-merge-diff/v6/value"
)

func init() {
	generators["C08"] = genC08
	generators["C09"] = genC09
}

// deep snapshot of everything a call is given
func snapshotArgs(live, arg *typed.TypedValue, m fieldpath.ManagedFields) string {
	return sexpTV("", live) + "|" + sexpTV("", arg) + "|" + sexpManaged(m)
}

// runs the operation with the caller's own map (no defensive copy) and reports the
// outcome and whether every argument is unchanged afterwards
func callApply(c *histConf, live, cfg *typed.TypedValue, m fieldpath.ManagedFields, mgr, ver string, force bool, failAt int) (opResult, bool) {
	before := snapshotArgs(live, cfg, m)
	sets := map[string]*fieldpath.Set{}
	for k, v := range m {
		sets[k] = v.Set()
	}
	var res opResult
	u, cv := c.updater(false, failAt)
	func() {
		defer func() {
			if x := recover(); x != nil {
				res.panicked = true
				res.err = fmt.Errorf("panic: %v", x)
			}
		}()
		o, mm, err := u.Apply(live, cfg, fieldpath.APIVersion(ver), m, mgr, force)
		res = opResult{obj: o, managed: mm, err: err}
	}()
	res.calls = cv.calls
	res.fired = cv.fired
	same := before == snapshotArgs(live, cfg, m)
	for k, v := range m { // the very set objects are still there
		if sets[k] != v.Set() {
			same = false
		}
	}
	return res, same
}

func callUpdate(c *histConf, live, obj *typed.TypedValue, m fieldpath.ManagedFields, mgr, ver string, failAt int) (opResult, bool) {
	before := snapshotArgs(live, obj, m)
	var res opResult
	u, cv := c.updater(false, failAt)
	func() {
		defer func() {
			if x := recover(); x != nil {
				res.panicked = true
				res.err = fmt.Errorf("panic: %v", x)
			}
		}()
		o, mm, err := u.Update(live, obj, fieldpath.APIVersion(ver), m, mgr)
		res = opResult{obj: o, managed: mm, err: err}
	}()
	res.calls = cv.calls
	res.fired = cv.fired
	return res, before == snapshotArgs(live, obj, m)
}

func genC08(e *emitter, tier string) {
	emitSchemas(e)
	multiC, _, gone := c20Confs()
	for _, sd := range c20Schemas {
		e.line("(defschema " + quote(sd.id) + " " + sexpSchema(&sd.parser.Schema) + ")")
	}
	e.line("(setprop \"C08\")")
	e.line(sexpConf(multiC))
	e.line(sexpConf(gone))
	n := 150
	if tier == "thorough" {
		n = 5000
	}
	n /= shardCount
	for h := 0; h < n; h++ {
		st := newState(multiC, "v1")
		updVer := map[string]string{}
		steps := 3 + e.rng.Intn(5)
		for i := 0; i < steps; i++ {
			// in a third of the histories the converter reports v2 as gone from the middle
			// on: the records still held at v2 are in the caller's map and must stay there
			multi := multiC
			vers := []string{"v1", "v2", "v3"}
			if h%3 == 2 && i >= steps/2 {
				multi = gone
				vers = []string{"v1", "v3"}
			}
			isApply := e.rng.Intn(5) < 3
			var mgr, ver string
			if isApply {
				mgr = appliers[e.rng.Intn(len(appliers))]
				ver = vers[e.rng.Intn(len(vers))]
			} else {
				mgr = updaters[e.rng.Intn(len(updaters))]
				var ok bool
				if ver, ok = updVer[mgr]; !ok || (multi == gone && ver == "v2") {
					ver = vers[e.rng.Intn(len(vers))]
					updVer[mgr] = ver
				}
			}
			live, ok := st.liveAt(multi, ver)
			if !ok {
				break
			}
			var v interface{}
			var tv *typed.TypedValue
			if isApply {
				v, tv = genConfig(e, multi, ver, st, nil, true)
			} else {
				v, tv = genUpdateObject(e, multi, ver, st, histOpts{degenerate: e.rng.Intn(2) == 0, noDups: false})
			}
			if tv == nil {
				continue
			}
			force := e.rng.Intn(2) == 0
			var clean opResult
			var same bool
			op := ""
			if isApply {
				clean, same = callApply(multi, live, tv, copyManaged(st.managed), mgr, ver, force, -1)
				op = fmt.Sprintf("(apply %s %s %s %s)", quote(mgr), quote(ver), sexpValue(v), sexpBool(force))
			} else {
				clean, same = callUpdate(multi, live, tv, copyManaged(st.managed), mgr, ver, -1)
				op = fmt.Sprintf("(update %s %s %s)", quote(mgr), quote(ver), sexpValue(v))
			}
			e.line(fmt.Sprintf("(c08.call %s %s %s %s %s %s %d)", quote(multi.id), sexpTV(ver, live), sexpManaged(st.managed), op,
				sexpOutcome(ver, clean), sexpBool(same), clean.calls))
			// every position at which the converter can be made to fail
			for k := 0; k < clean.calls; k++ {
				var r opResult
				var s2 bool
				if isApply {
					r, s2 = callApply(multi, live, tv, copyManaged(st.managed), mgr, ver, force, k)
				} else {
					r, s2 = callUpdate(multi, live, tv, copyManaged(st.managed), mgr, ver, k)
				}
				if !r.fired {
					// the number of conversions depends on the order in which Go visits the
					// versions: this run made fewer calls than the counted one
					continue
				}
				e.line(fmt.Sprintf("(c08.fault %s %s %s %s %d %s %s)", quote(multi.id), sexpTV(ver, live), sexpManaged(st.managed), op, k,
					sexpOutcome(ver, r), sexpBool(s2)))
			}
			if clean.ok() {
				obj := clean.obj
				if obj == nil {
					obj = live
				}
				st = &hstate{live: obj, liveVer: ver, managed: clean.managed}
			}
		}
	}
	genC08Typed(e, tier)
}

// typed and field-set operations leave their operands untouched
func genC08Typed(e *emitter, tier string) {
	n := 400
	if tier == "thorough" {
		n = 20000
	}
	n /= shardCount
	for i := 0; i < n; i++ {
		sd, tr, l, r, _ := genPair(e, false)
		tl, tr2 := typedOf(sd, tr, l, true), typedOf(sd, tr, r, true)
		if tl == nil || tr2 == nil {
			continue
		}
		ls, rs := sexpVal(tl.AsValue()), sexpVal(tr2.AsValue())
		fsL, errL := tl.ToFieldSet()
		fsR, errR := tr2.ToFieldSet()
		if errL != nil || errR != nil {
			continue
		}
		sl, sr := sexpSet(fsL), sexpSet(fsR)
		// independently built twins: a set operand must stay structurally what it was (an
		// empty child node left behind by a lookup shows in Equals, not in the listed paths)
		twin := func(s *fieldpath.Set) *fieldpath.Set {
			t := fieldpath.NewSet()
			s.Iterate(func(p fieldpath.Path) { t.Insert(p.Copy()) })
			return t
		}
		twinL, twinR := twin(fsL), twin(fsR)
		ops := 0
		func() {
			defer func() { recover() }()
			tl.ExtractItems(fsR)
			tl.ExtractItems(fsR, typed.WithAppendKeyFields())
			tl.RemoveItems(fsL)
			ops += 3
			tl.Merge(tr2)
			ops++
			tl.Compare(tr2)
			ops++
			tl.RemoveItems(fsR)
			ops++
			tl.ExtractItems(fsR.Leaves(), typed.WithAppendKeyFields())
			ops++
			tl.Validate()
			ops++
			fsL.Union(fsR)
			fsL.Intersection(fsR)
			fsL.Difference(fsR)
			fsL.RecursiveDifference(fsR)
			fsL.Leaves()
			fsL.EnsureNamedFieldsAreMembers(&sd.parser.Schema, tr)
			fsL.Equals(fsR)
			fsL.ToJSON()
			ops += 8
			value.Equals(tl.AsValue(), tr2.AsValue())
			value.Compare(tl.AsValue(), tr2.AsValue())
			ops += 2
		}()
		same := ls == sexpVal(tl.AsValue()) && rs == sexpVal(tr2.AsValue()) && sl == sexpSet(fsL) && sr == sexpSet(fsR) &&
			fsL.Equals(twinL) && twinL.Equals(fsL) && fsR.Equals(twinR) && twinR.Equals(fsR)
		e.line(fmt.Sprintf("(c08.typed %d %s)", ops, sexpBool(same)))
	}
}

// ---------- C09: equal inputs give equal outputs whatever ran before ----------

func genC09(e *emitter, tier string) {
	emitSchemas(e)
	multi, _, _ := c20Confs()
	for _, sd := range c20Schemas {
		e.line("(defschema " + quote(sd.id) + " " + sexpSchema(&sd.parser.Schema) + ")")
	}
	e.line("(setprop \"C09\")")
	e.line(sexpConf(multi))
	n := 150
	if tier == "thorough" {
		n = 5000
	}
	n /= shardCount
	for h := 0; h < n; h++ {
		st := newState(multi, "v1")
		updVer := map[string]string{}
		steps := 4 + e.rng.Intn(5)
		for i := 0; i < steps; i++ {
			isApply := e.rng.Intn(5) < 3
			var mgr, ver string
			if isApply {
				mgr = appliers[e.rng.Intn(len(appliers))]
				ver = multi.versions[e.rng.Intn(len(multi.versions))].name
			} else {
				mgr = updaters[e.rng.Intn(len(updaters))]
				var ok bool
				if ver, ok = updVer[mgr]; !ok {
					ver = multi.versions[e.rng.Intn(len(multi.versions))].name
					updVer[mgr] = ver
				}
			}
			live, ok := st.liveAt(multi, ver)
			if !ok {
				break
			}
			var v interface{}
			var tv *typed.TypedValue
			if isApply {
				v, tv = genConfig(e, multi, ver, st, nil, true)
			} else {
				v, tv = genUpdateObject(e, multi, ver, st, histOpts{degenerate: true, noDups: false})
			}
			if tv == nil {
				continue
			}
			st = repeatStep(e, multi, st, live, isApply, mgr, ver, v, tv)
		}
	}
	for h := 0; h < n; h++ {
		runNestingC09(e, multi)
	}
	// typed operations on a freshly parsed schema, repeated after other typed calls that walk
	// through other references to the same named types (overrides, atomic references) and
	// after failing validations: the schema's lazily built state must not leak
	nt := 40
	if tier == "thorough" {
		nt = 1500
	}
	nt /= shardCount
	for k := 0; k < nt; k++ {
		sameT, detail := typedRepeat(e)
		e.line(fmt.Sprintf("(c09.typed %s %s)", sexpBool(sameT), quote(detail)))
	}
	for k := 0; k < nt*2; k++ {
		sameT, detail := bytesStable(e)
		e.line(fmt.Sprintf("(c09.typed %s %s)", sexpBool(sameT), quote(detail)))
	}
	for k := 0; k < nt*2; k++ {
		sameT, detail := reconcileRepeat(e)
		e.line(fmt.Sprintf("(c09.typed %s %s)", sexpBool(sameT), quote(detail)))
	}
	for k := 0; k < nt*4; k++ {
		sameT, detail := operandRepeat(e)
		e.line(fmt.Sprintf("(c09.typed %s %s)", sexpBool(sameT), quote(detail)))
	}
	// value equality and ordering with both allocators
	vals := valueUniverse()
	okAlloc := true
	for _, a := range vals {
		for _, b := range vals {
			va, vb := value.NewValueInterface(a), value.NewValueInterface(b)
			fa := value.NewFreelistAllocator()
			if value.EqualsUsing(value.HeapAllocator, va, vb) != value.EqualsUsing(fa, va, vb) ||
				value.CompareUsing(value.HeapAllocator, va, vb) != value.CompareUsing(fa, va, vb) {
				okAlloc = false
			}
		}
	}
	e.line(fmt.Sprintf("(c09.allocators %d %s)", len(vals)*len(vals), sexpBool(okAlloc)))
}

// the same call five times, separated by other calls (successful ones, conflicting ones,
// ones that fail midway, ones on invalid data); returns the state after the call
func repeatStep(e *emitter, multi *histConf, st *hstate, live *typed.TypedValue, isApply bool, mgr, ver string, v interface{}, tv *typed.TypedValue) *hstate {
	var outs []string
	var first opResult
	// the repetitions are given the very same map and set objects: a call that left something
	// behind in its arguments gives the next one another input
	shared := copyManaged(st.managed)
	for rep := 0; rep < 5; rep++ {
		var r opResult
		if isApply {
			r, _ = callApply(multi, live, tv, shared, mgr, ver, true, -1)
		} else {
			r, _ = callUpdate(multi, live, tv, shared, mgr, ver, -1)
		}
		if rep == 0 {
			first = r
		}
		out := sexpOutcome(ver, r)
		if r.ok() {
			if r.obj != nil {
				b, _ := value.ToJSON(r.obj.AsValue())
				out += " json=" + string(b)
			}
			for _, k := range sortedManagers(r.managed) {
				b, _ := r.managed[k].Set().ToJSON()
				out += " " + k + "=" + string(b)
			}
		}
		outs = append(outs, out)
		disturb(e, multi, st, rep)
	}
	same := true
	for _, o := range outs {
		if o != outs[0] {
			same = false
		}
	}
	op := ""
	if isApply {
		op = fmt.Sprintf("(apply %s %s %s t)", quote(mgr), quote(ver), sexpValue(v))
	} else {
		op = fmt.Sprintf("(update %s %s %s)", quote(mgr), quote(ver), sexpValue(v))
	}
	nver := map[string]bool{}
	for _, r := range st.managed {
		nver[string(r.APIVersion())] = true
	}
	e.line(fmt.Sprintf("(c09.repeat %s %s %s %s %s %s %d %d)", quote(multi.id), sexpTV(ver, live), sexpManaged(st.managed), op,
		sexpOutcome(ver, first), sexpBool(same), len(st.managed), len(nver)))
	if first.ok() {
		obj := first.obj
		if obj == nil {
			obj = live
		}
		return &hstate{live: obj, liveVer: ver, managed: first.managed}
	}
	return st
}

// ownership chains through nested items that alternate between versions (the add-back
// passes of prune), each step repeated
func runNestingC09(e *emitter, multi *histConf) {
	st := newState(multi, "v1")
	steps := nestingSteps(e)
	if e.rng.Intn(6) == 0 {
		steps = hollowSteps(e, e.rng.Intn(2) == 0)
	}
	for _, sp := range steps {
		var vObj interface{}
		var tv *typed.TypedValue
		if sp.apply {
			vObj = convertUnstructured(multi, "v1", sp.ver, sp.obj)
			tv = multi.typedAt(sp.ver, vObj, false)
		} else {
			l1, ok := st.liveAt(multi, "v1")
			if !ok {
				return
			}
			vObj = convertUnstructured(multi, "v1", sp.ver, mergeTop(unstructuredOf(l1), sp.obj))
			tv = multi.typedAt(sp.ver, vObj, true)
		}
		live, ok := st.liveAt(multi, sp.ver)
		if tv == nil || !ok {
			return
		}
		st = repeatStep(e, multi, st, live, sp.apply, sp.mgr, sp.ver, vObj, tv)
	}
}

// one round of typed operations rendered as text
func typedRender(p *typed.Parser, tr schema.TypeRef, a, b interface{}) string {
	out := ""
	func() {
		defer func() {
			if r := recover(); r != nil {
				out += " panic"
			}
		}()
		ta, err := typed.AsTyped(value.NewValueInterface(a), &p.Schema, tr, typed.AllowDuplicates)
		if err != nil {
			out += " invalid-a"
			return
		}
		tb, err := typed.AsTyped(value.NewValueInterface(b), &p.Schema, tr, typed.AllowDuplicates)
		if err != nil {
			out += " invalid-b"
			return
		}
		if fs, err := ta.ToFieldSet(); err == nil {
			j, _ := fs.ToJSON()
			out += " fs=" + string(j)
		} else {
			out += " fs-err"
		}
		if c, err := ta.Compare(tb); err == nil {
			out += " cmp=" + c.String()
		} else {
			out += " cmp-err"
		}
		if m, err := ta.Merge(tb); err == nil {
			j, _ := value.ToJSON(m.AsValue())
			out += " merge=" + string(j)
		} else {
			out += " merge-err"
		}
	}()
	return out
}

func typedRepeat(e *emitter) (bool, string) {
	fresh := func() *typed.Parser {
		p, err := typed.NewParser(typed.YAMLObject(kitchenYAML))
		if err != nil {
			panic(err)
		}
		return p
	}
	menu := schemaMenu()[0]
	sc := &menu.parser.Schema
	root := menu.roots[0]
	a := genValue(e.rng, sc, root, genMode{}, 4)
	b := mutate(e.rng, sc, root, a, genMode{}, 4)
	p := fresh()
	first := typedRender(p, root, a, b)
	// other calls on the same parser: other roots (atomic overrides of the same named
	// types), other values, invalid values
	for i := 0; i < 3+e.rng.Intn(4); i++ {
		r := menu.roots[e.rng.Intn(len(menu.roots))]
		x := genValue(e.rng, sc, r, genMode{degenerate: e.rng.Intn(2) == 0, dups: e.rng.Intn(3) == 0}, 4)
		y := mutate(e.rng, sc, r, x, genMode{}, 3)
		if e.rng.Intn(3) == 0 {
			y = corrupt(e.rng, y)
		}
		typedRender(p, r, x, y)
		typedRender(p, root, x, y) // the wrong root for x: fails validation midway
	}
	second := typedRender(p, root, a, b)
	alone := typedRender(fresh(), root, a, b)
	if first != second {
		return false, "the same typed calls gave another result after other calls on the same parser"
	}
	if first != alone {
		return false, "a freshly parsed schema gives another result"
	}
	return true, ""
}

// the typed and field-set operations twice on the very same operand objects: what the
// first round left behind in an operand would show in the second
func operandRepeat(e *emitter) (bool, string) {
	sd, tr, l, r, _ := genPair(e, false)
	tl, tr2 := typedOf(sd, tr, l, true), typedOf(sd, tr, r, true)
	if tl == nil || tr2 == nil {
		return true, ""
	}
	fsL, errL := tl.ToFieldSet()
	fsR, errR := tr2.ToFieldSet()
	if errL != nil || errR != nil {
		return true, ""
	}
	render := func() (out string) {
		defer func() {
			if x := recover(); x != nil {
				out += " panic"
			}
		}()
		js := func(s *fieldpath.Set) string { b, _ := s.ToJSON(); return string(b) }
		vs := func(t *typed.TypedValue) string {
			if t == nil {
				return "nil"
			}
			b, _ := value.ToJSON(t.AsValue())
			return string(b)
		}
		out += " en=" + js(fsL.EnsureNamedFieldsAreMembers(&sd.parser.Schema, tr))
		out += " enR=" + js(fsR.EnsureNamedFieldsAreMembers(&sd.parser.Schema, tr))
		out += " u=" + js(fsL.Union(fsR)) + " i=" + js(fsL.Intersection(fsR)) + " d=" + js(fsL.Difference(fsR))
		out += " rd=" + js(fsL.RecursiveDifference(fsR)) + " lv=" + js(fsL.Leaves()) + " self=" + js(fsL) + js(fsR)
		out += " rm=" + vs(tl.RemoveItems(fsR)) + " ex=" + vs(tl.ExtractItems(fsR.Leaves(), typed.WithAppendKeyFields()))
		if m, err := tl.Merge(tr2); err == nil {
			out += " merge=" + vs(m)
		}
		if c, err := tl.Compare(tr2); err == nil {
			out += " cmp=" + c.String()
		}
		if f2, err := tl.ToFieldSet(); err == nil {
			out += " fs=" + js(f2)
		}
		out += fmt.Sprintf(" eq=%v c=%d", value.Equals(tl.AsValue(), tr2.AsValue()), value.Compare(tl.AsValue(), tr2.AsValue()))
		return
	}
	first := render()
	second := render()
	if first != second {
		return false, "the same typed and field-set calls on the same operand objects gave another result the second time"
	}
	return true, ""
}

// a schema under which reconciling {spec.replicas, status} collects a change (spec turned
// atomic) and then fails (the type of status does not resolve)
const brokenReconcileYAML = `types:
- name: root
  map:
    fields:
    - name: spec
      type:
        namedType: spec
        elementRelationship: atomic
    - name: status
      type:
        namedType: doesNotExist
- name: spec
  map:
    fields:
    - name: replicas
      type:
        scalar: numeric
`

// reconciling a record with a schema, before and after reconciliations that fail midway:
// the answer for the same set and schema must not change
func reconcileRepeat(e *emitter) (bool, string) {
	base := schemaMenu()[1]
	y := atomicVariant(e.rng.Intn(128))
	p, err := typed.NewParser(typed.YAMLObject(y))
	if err != nil {
		return true, ""
	}
	tv, _ := typed.AsTyped(value.NewValueInterface(nil), &p.Schema, nameRef("root"))
	v := genValue(e.rng, &base.parser.Schema, base.roots[0], genMode{}, 4)
	btv := typedOf(base, base.roots[0], v, false)
	if btv == nil {
		return true, ""
	}
	set, err := btv.ToFieldSet()
	if err != nil {
		return true, ""
	}
	render := func() (out string) {
		defer func() {
			if x := recover(); x != nil {
				out = "panic"
			}
		}()
		r, err := typed.ReconcileFieldSetWithSchema(set, tv)
		switch {
		case err != nil:
			return "err"
		case r == nil:
			return "unchanged"
		}
		return sexpSet(r)
	}
	first := render()
	bp, err := typed.NewParser(typed.YAMLObject(brokenReconcileYAML))
	if err != nil {
		return true, ""
	}
	btv2 := typed.AsTypedUnvalidated(value.NewValueInterface(nil), &bp.Schema, nameRef("root"))
	bset := fieldpath.NewSet(fieldpath.MakePathOrDie("spec", "replicas"), fieldpath.MakePathOrDie("status"))
	for i := 0; i < 1+e.rng.Intn(3); i++ {
		func() {
			defer func() { recover() }()
			typed.ReconcileFieldSetWithSchema(bset, btv2)
		}()
		if got := render(); got != first {
			return false, "reconciling the same record with the same schema gave another result after a reconciliation that failed"
		}
	}
	return true, ""
}

// the bytes a serialisation returned stay what they were whatever is serialised afterwards
// (successfully or not)
func bytesStable(e *emitter) (bool, string) {
	v1 := randomValue(e, 3)
	b1, err := value.ToJSON(value.NewValueInterface(v1))
	if err != nil {
		return true, ""
	}
	ref := string(b1)
	fs := fieldpath.NewSet(pathUniverse()[:5+e.rng.Intn(10)]...)
	j1, err := fs.ToJSON()
	if err != nil {
		return true, ""
	}
	refSet := string(j1)
	for i := 0; i < 3; i++ {
		func() {
			defer func() { recover() }()
			value.ToJSON(value.NewValueInterface(M{"w": math.NaN(), "x": randomValue(e, 2)}))
			value.ToJSON(value.NewValueInterface(randomValue(e, 3)))
			fieldpath.NewSet(pathUniverse()[3:9]...).ToJSON()
		}()
	}
	if string(b1) != ref {
		return false, "the bytes returned by value.ToJSON changed after later serialisations"
	}
	if string(j1) != refSet {
		return false, "the bytes returned by Set.ToJSON changed after later serialisations"
	}
	b2, _ := value.ToJSON(value.NewValueInterface(v1))
	if string(b2) != ref {
		return false, "serialising the same value again gave other bytes"
	}
	return true, ""
}

func sortedManagers(m fieldpath.ManagedFields) []string {
	out := make([]string, 0, len(m))
	for k := range m {
		out = append(out, k)
	}
	sortStrings(out)
	return out
}

// other calls between two repetitions
func disturb(e *emitter, c *histConf, st *hstate, rep int) {
	ver := c.versions[e.rng.Intn(len(c.versions))].name
	live, ok := st.liveAt(c, ver)
	if !ok {
		return
	}
	switch rep % 4 {
	case 0: // an unrelated successful apply
		if _, tv := genConfig(e, c, ver, st, nil, true); tv != nil {
			callApply(c, live, tv, copyManaged(st.managed), "zz", ver, true, -1)
		}
	case 1: // a call that fails midway (injected conversion failure)
		if _, tv := genConfig(e, c, ver, st, nil, true); tv != nil {
			callApply(c, live, tv, copyManaged(st.managed), appliers[0], ver, false, e.rng.Intn(3))
		}
	case 2: // invalid data through validation, merge and compare
		vd := c.version(ver)
		bad := corrupt(e.rng, unstructuredOf(live))
		func() {
			defer func() { recover() }()
			tvb := typed.AsTypedUnvalidated(value.NewValueInterface(bad), &vd.sd.parser.Schema, vd.tr)
			tvb.Validate()
			live.Merge(tvb)
			live.Compare(tvb)
			tvb.ToFieldSet()
		}()
	default: // a non-forced apply that may conflict
		if _, tv := genConfig(e, c, ver, st, nil, true); tv != nil {
			callApply(c, live, tv, copyManaged(st.managed), appliers[1], ver, false, -1)
		}
	}
}
