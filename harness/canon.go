package main

// Canonical S-expression printer (syntax: DESIGN.md appendix B).

import (
	"fmt"
	"math/big"
	"sort"
	"strconv"
	"strings"

	"sigs.k8s.io/structured-merge-diff/v6/fieldpath"
	"sigs.k8s.io/structured-merge-diff/v6/schema"
	"sigs.k8s.io/structured-merge-diff/v6/value"
)

func quote(s string) string {
	var b strings.Builder
	b.WriteByte('"')
	for i := 0; i < len(s); i++ {
		c := s[i]
		switch {
		case c == '"' || c == '\\':
			b.WriteByte('\\')
			b.WriteByte(c)
		case c < 32 || c >= 127:
			fmt.Fprintf(&b, "\\x%02x", c)
		default:
			b.WriteByte(c)
		}
	}
	b.WriteByte('"')
	return b.String()
}

// sexpValue prints unstructured data.
func sexpValue(v interface{}) string {
	switch t := v.(type) {
	case nil:
		return "n"
	case bool:
		if t {
			return "t"
		}
		return "f"
	case int:
		return "(i " + strconv.Itoa(t) + ")"
	case int64:
		return "(i " + strconv.FormatInt(t, 10) + ")"
	case int32:
		return "(i " + strconv.FormatInt(int64(t), 10) + ")"
	case uint32:
		return "(i " + strconv.FormatInt(int64(t), 10) + ")"
	case float32:
		return sexpFloat(float64(t))
	case float64:
		return sexpFloat(t)
	case string:
		return "(s " + quote(t) + ")"
	case []interface{}:
		var b strings.Builder
		b.WriteString("(l")
		for _, x := range t {
			b.WriteByte(' ')
			b.WriteString(sexpValue(x))
		}
		b.WriteByte(')')
		return b.String()
	case map[string]interface{}:
		keys := make([]string, 0, len(t))
		for k := range t {
			keys = append(keys, k)
		}
		sort.Strings(keys)
		var b strings.Builder
		b.WriteString("(m")
		for _, k := range keys {
			b.WriteString(" (" + quote(k) + " " + sexpValue(t[k]) + ")")
		}
		b.WriteByte(')')
		return b.String()
	case map[interface{}]interface{}:
		m := map[string]interface{}{}
		for k, x := range t {
			m[fmt.Sprint(k)] = x
		}
		return sexpValue(m)
	}
	panic(fmt.Sprintf("sexpValue: unsupported %T", v))
}

func sexpFloat(f float64) string {
	r := new(big.Rat)
	if r.SetFloat64(f) == nil {
		panic("non-finite float")
	}
	return "(d " + r.Num().String() + " " + r.Denom().String() + ")"
}

func sexpVal(v value.Value) string {
	if v == nil {
		return "-"
	}
	return sexpValue(v.Unstructured())
}

func sexpFieldList(fl value.FieldList) string {
	var b strings.Builder
	for i, f := range fl {
		if i > 0 {
			b.WriteByte(' ')
		}
		b.WriteString("(" + quote(f.Name) + " " + sexpVal(f.Value) + ")")
	}
	return b.String()
}

func sexpPE(pe fieldpath.PathElement) string {
	switch {
	case pe.FieldName != nil:
		return "(F " + quote(*pe.FieldName) + ")"
	case pe.Key != nil:
		if len(*pe.Key) == 0 {
			return "(K)"
		}
		return "(K " + sexpFieldList(*pe.Key) + ")"
	case pe.Value != nil:
		return "(V " + sexpVal(*pe.Value) + ")"
	case pe.Index != nil:
		return "(I " + strconv.Itoa(*pe.Index) + ")"
	}
	return "(invalid)"
}

func sexpPath(p fieldpath.Path) string {
	var b strings.Builder
	b.WriteString("(p")
	for _, pe := range p {
		b.WriteByte(' ')
		b.WriteString(sexpPE(pe))
	}
	b.WriteByte(')')
	return b.String()
}

func sexpPaths(ps []fieldpath.Path) string {
	var b strings.Builder
	b.WriteString("(S")
	for _, p := range ps {
		b.WriteByte(' ')
		b.WriteString(sexpPath(p))
	}
	b.WriteByte(')')
	return b.String()
}

func sexpSet(s *fieldpath.Set) string {
	if s == nil {
		return "-"
	}
	var b strings.Builder
	b.WriteString("(S")
	s.Iterate(func(p fieldpath.Path) {
		b.WriteByte(' ')
		b.WriteString(sexpPath(p))
	})
	b.WriteByte(')')
	return b.String()
}

func sexpBool(b bool) string {
	if b {
		return "t"
	}
	return "f"
}

// ---- schemas ----

func sexpRel(r schema.ElementRelationship) string {
	switch r {
	case schema.Associative:
		return "associative"
	case schema.Atomic:
		return "atomic"
	case schema.Separable:
		return "separable"
	case "":
		return "unset"
	}
	return "(other " + quote(string(r)) + ")"
}

func sexpScalar(s schema.Scalar) string {
	switch s {
	case schema.Numeric:
		return "numeric"
	case schema.String:
		return "string"
	case schema.Boolean:
		return "boolean"
	case schema.Untyped:
		return "untyped"
	}
	return "(other " + quote(string(s)) + ")"
}

func sexpTypeRef(tr schema.TypeRef) string {
	n := "-"
	if tr.NamedType != nil {
		n = "(named " + quote(*tr.NamedType) + ")"
	}
	r := "-"
	if tr.ElementRelationship != nil {
		r = sexpRel(*tr.ElementRelationship)
	}
	return "(tr " + n + " " + sexpAtom(tr.Inlined) + " " + r + ")"
}

func sexpAtom(a schema.Atom) string {
	sc, li, ma := "-", "-", "-"
	if a.Scalar != nil {
		sc = sexpScalar(*a.Scalar)
	}
	if a.List != nil {
		var b strings.Builder
		b.WriteString("(list " + sexpTypeRef(a.List.ElementType) + " " + sexpRel(a.List.ElementRelationship) + " (keys")
		for _, k := range a.List.Keys {
			b.WriteString(" " + quote(k))
		}
		b.WriteString("))")
		li = b.String()
	}
	if a.Map != nil {
		var b strings.Builder
		b.WriteString("(map (fields")
		for _, f := range a.Map.Fields {
			d := "-"
			if f.Default != nil {
				d = sexpValue(f.Default)
			}
			b.WriteString(" (field " + quote(f.Name) + " " + sexpTypeRef(f.Type) + " " + d + ")")
		}
		b.WriteString(") " + sexpTypeRef(a.Map.ElementType) + " " + sexpRel(a.Map.ElementRelationship) + ")")
		ma = b.String()
	}
	return "(atom " + sc + " " + li + " " + ma + ")"
}

func sexpSchema(s *schema.Schema) string {
	var b strings.Builder
	b.WriteString("(schema")
	for _, t := range s.Types {
		b.WriteString(" (type " + quote(t.Name) + " " + sexpAtom(t.Atom) + ")")
	}
	b.WriteByte(')')
	return b.String()
}
