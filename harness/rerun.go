package main

// Re-execution of recorded case lines against the current /repo (used by --replay and for
// the corpus): the inputs of a case are decoded from its S-expression, the operation is run
// again, and a fresh case line with the newly observed outcome is printed.  Lines that carry
// no re-executable input (definitions, aggregated cases) are copied unchanged.

import (
	"bufio"
	"fmt"
	"math/big"
	"os"
	"strconv"
	"strings"

	"sigs.k8s.io/structured-merge-diff/v6/fieldpath"
	"sigs.k8s.io/structured-merge-diff/v6/value"
)

type sx struct {
	atom   string
	quoted bool
	list   []*sx
	isList bool
}

func parseSx(s string) (*sx, error) {
	pos := 0
	var item func() (*sx, error)
	skip := func() {
		for pos < len(s) && (s[pos] == ' ' || s[pos] == '\t' || s[pos] == '\n') {
			pos++
		}
	}
	item = func() (*sx, error) {
		skip()
		if pos >= len(s) {
			return nil, fmt.Errorf("eof")
		}
		switch s[pos] {
		case '(':
			pos++
			out := &sx{isList: true}
			for {
				skip()
				if pos >= len(s) {
					return nil, fmt.Errorf("eof in list")
				}
				if s[pos] == ')' {
					pos++
					return out, nil
				}
				x, err := item()
				if err != nil {
					return nil, err
				}
				out.list = append(out.list, x)
			}
		case '"':
			pos++
			var b strings.Builder
			for pos < len(s) && s[pos] != '"' {
				if s[pos] == '\\' && pos+1 < len(s) {
					if s[pos+1] == 'x' && pos+3 < len(s) {
						n, _ := strconv.ParseUint(s[pos+2:pos+4], 16, 8)
						b.WriteByte(byte(n))
						pos += 4
						continue
					}
					b.WriteByte(s[pos+1])
					pos += 2
					continue
				}
				b.WriteByte(s[pos])
				pos++
			}
			pos++
			return &sx{atom: b.String(), quoted: true}, nil
		default:
			st := pos
			for pos < len(s) && !strings.ContainsRune(" \t\n()\"", rune(s[pos])) {
				pos++
			}
			return &sx{atom: s[st:pos]}, nil
		}
	}
	return item()
}

func (x *sx) head() string {
	if x.isList && len(x.list) > 0 && !x.list[0].isList {
		return x.list[0].atom
	}
	return ""
}

func sxValue(x *sx) interface{} {
	if !x.isList {
		switch x.atom {
		case "n":
			return nil
		case "t":
			return true
		case "f":
			return false
		}
		return nil
	}
	switch x.head() {
	case "i":
		n, _ := strconv.ParseInt(x.list[1].atom, 10, 64)
		return n
	case "d":
		num, _ := new(big.Int).SetString(x.list[1].atom, 10)
		den, _ := new(big.Int).SetString(x.list[2].atom, 10)
		f, _ := new(big.Rat).SetFrac(num, den).Float64()
		return f
	case "s":
		return x.list[1].atom
	case "l":
		out := L{}
		for _, y := range x.list[1:] {
			out = append(out, sxValue(y))
		}
		return out
	case "m":
		out := M{}
		for _, y := range x.list[1:] {
			out[y.list[0].atom] = sxValue(y.list[1])
		}
		return out
	}
	return nil
}

func sxPE(x *sx) fieldpath.PathElement {
	switch x.head() {
	case "F":
		return peField(x.list[1].atom)
	case "I":
		n, _ := strconv.Atoi(x.list[1].atom)
		return peIndex(n)
	case "V":
		return peValue(sxValue(x.list[1]))
	case "K":
		fl := value.FieldList{}
		for _, kv := range x.list[1:] {
			fl = append(fl, value.Field{Name: kv.list[0].atom, Value: value.NewValueInterface(sxValue(kv.list[1]))})
		}
		return fieldpath.PathElement{Key: &fl}
	}
	return fieldpath.PathElement{}
}

func sxSet(x *sx) *fieldpath.Set {
	s := fieldpath.NewSet()
	for _, p := range x.list[1:] {
		var path fieldpath.Path
		for _, e := range p.list[1:] {
			path = append(path, sxPE(e))
		}
		s.Insert(path)
	}
	return s
}

func sxManaged(x *sx) fieldpath.ManagedFields {
	m := fieldpath.ManagedFields{}
	for _, r := range x.list[1:] {
		m[r.list[0].atom] = fieldpath.NewVersionedSet(sxSet(r.list[3]), fieldpath.APIVersion(r.list[1].atom), r.list[2].atom == "t")
	}
	return m
}

func rerunConf(id string) *histConf {
	menu := schemaMenu()
	switch id {
	case "small1":
		return singleVersionConf(menu[1], "small1")
	case "kitchen1":
		return singleVersionConf(menu[0], "kitchen1")
	case "deduced1":
		return singleVersionConf(menu[2], "deduced1")
	case "mv":
		m, _, _ := c20Confs()
		return m
	case "sv":
		_, s, _ := c20Confs()
		return s
	case "mv-gone":
		_, _, g := c20Confs()
		return g
	}
	for _, c := range c19Confs() {
		if c.id == id {
			return c
		}
	}
	return nil
}

// rerunFile re-executes every re-executable case of the file
func rerunFile(e *emitter, path string) {
	f, err := os.Open(path)
	if err != nil {
		fmt.Fprintln(os.Stderr, err)
		os.Exit(2)
	}
	defer f.Close()
	sc := bufio.NewScanner(f)
	sc.Buffer(make([]byte, 1<<20), 1<<28)
	var lines []string
	needDefs := false
	for sc.Scan() {
		l := sc.Text()
		if strings.TrimSpace(l) == "" || strings.HasPrefix(l, "#") {
			continue
		}
		lines = append(lines, l)
		if strings.HasPrefix(l, "(hist.") || strings.HasPrefix(l, "(c09.repeat") || strings.HasPrefix(l, "(c08.") {
			needDefs = true
		}
	}
	hasDefs := false
	for _, l := range lines {
		if strings.HasPrefix(l, "(defschema") {
			hasDefs = true
		}
	}
	if needDefs && !hasDefs {
		emitSchemas(e)
		multi, single, gone := c20Confs()
		for _, sd := range c20Schemas {
			e.line("(defschema " + quote(sd.id) + " " + sexpSchema(&sd.parser.Schema) + ")")
		}
		menu := schemaMenu()
		for _, c := range append([]*histConf{singleVersionConf(menu[1], "small1"), singleVersionConf(menu[0], "kitchen1"), singleVersionConf(menu[2], "deduced1"), multi, single, gone}, c19Confs()...) {
			e.line(sexpConf(c))
		}
	}
	for _, l := range lines {
		x, err := parseSx(l)
		if err != nil || !x.isList {
			e.line(l)
			continue
		}
		switch x.head() {
		case "hist.apply":
			c := rerunConf(x.list[1].atom)
			if c == nil {
				e.line(l)
				continue
			}
			ver := x.list[5].atom
			liveV := sxValue(x.list[2].list[2])
			live := c.typedAt(ver, liveV, true)
			cfgV := sxValue(x.list[6])
			cfg := c.typedAt(ver, cfgV, false)
			if live == nil || cfg == nil {
				e.line(l)
				continue
			}
			st := &hstate{live: live, liveVer: ver, managed: sxManaged(x.list[3])}
			if len(x.list) > 11 && x.list[11].isList {
				st.applied = map[string]appliedCfg{x.list[4].atom: {ver, sxValue(x.list[11])}}
			}
			emitApply(e, c, st, x.list[4].atom, ver, cfgV, cfg)
		case "hist.update":
			c := rerunConf(x.list[1].atom)
			if c == nil {
				e.line(l)
				continue
			}
			ver := x.list[5].atom
			live := c.typedAt(ver, sxValue(x.list[2].list[2]), true)
			objV := sxValue(x.list[6])
			obj := c.typedAt(ver, objV, true)
			if live == nil || obj == nil {
				e.line(l)
				continue
			}
			st := &hstate{live: live, liveVer: ver, managed: sxManaged(x.list[3])}
			emitUpdate(e, c, st, x.list[4].atom, ver, objV, obj)
		default:
			e.line(l)
		}
	}
}
