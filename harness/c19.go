package main

import (
	"fmt"
	"strings"

	"sigs.k8s.io/structured-merge-diff/v6/fieldpath"
)

func init() { generators["C19"] = genC19 }

func mkPath(parts ...interface{}) fieldpath.Path { return fieldpath.MakePathOrDie(parts...) }

// two API versions over the same small schema, so that the per-version ignore
// configurations can differ while conversions stay the identity
func c19Confs() []*histConf {
	sd := schemaMenu()[1]
	vs := func() []*versionDef {
		return []*versionDef{{name: "v1", sd: sd, tr: sd.roots[0]}, {name: "v2", sd: sd, tr: sd.roots[0]}}
	}
	setsA := map[fieldpath.APIVersion]*fieldpath.Set{
		"v1": fieldpath.NewSet(mkPath("aa"), mkPath("st", "cc"), mkPath("items", fieldpath.KeyByFields("name", "a"), "vv")),
		"v2": fieldpath.NewSet(mkPath("mm"), mkPath("sset")),
	}
	setsB := map[fieldpath.APIVersion]*fieldpath.Set{ // no entry for v2: nothing ignored there
		"v1": fieldpath.NewSet(mkPath("st"), mkPath("items", fieldpath.KeyByFields("name", "b"))),
	}
	patsA := map[string][][]string{
		"v1": {{"st"}, {"items", "*", "vv"}, {"items", "*", "name"}, {"aa"}},
		"v2": {{"mm", "*", "cc"}, {"mm", "*", "dd"}, {"items"}},
	}
	patsB := map[string][][]string{
		"v1": {{"mm", "ka"}, {"mm", "kb", "cc"}, {"mm", "kb", "dd"}, {"sset"}},
		"v2": {{"*", "cc"}, {"*", "dd"}, {"items", "*", "name"}},
	}
	return []*histConf{
		{id: "exA", versions: vs(), ignSets: setsA},
		{id: "exA-filter", versions: vs(), ignSets: setsA, useFilter: true},
		{id: "exB", versions: vs(), ignSets: setsB},
		{id: "exB-filter", versions: vs(), ignSets: setsB, useFilter: true},
		{id: "inA", versions: vs(), ignPats: patsA},
		{id: "inB", versions: vs(), ignPats: patsB},
	}
}

func genC19(e *emitter, tier string) {
	emitSchemas(e)
	e.line("(setprop \"C19\")")
	confs := c19Confs()
	for _, c := range confs {
		e.line(sexpConf(c))
	}
	n := 500
	if tier == "thorough" {
		n = 16000
	}
	n /= shardCount
	for h := 0; h < n; h++ {
		k := e.rng.Intn(4)
		switch k {
		case 0, 1:
			// the same history under an exclusion set given both ways
			runHistoryPair(e, confs[2*k], confs[2*k+1])
		default:
			runHistoryMV(e, confs[4+k-2], histOpts{plainConfigs: true, degenerate: e.rng.Intn(2) == 0}, "C19", nil)
		}
	}
	if shardIndex == 0 {
		genC19Filters(e, tier)
	}
}

// a history whose operations are spread over the versions of c
func runHistoryMV(e *emitter, c *histConf, opts histOpts, prop string, after func(st *hstate)) {
	st := newState(c, c.versions[0].name)
	prevCfg := map[string]interface{}{}
	updVer := map[string]string{}
	steps := 3 + e.rng.Intn(6)
	for i := 0; i < steps; i++ {
		if e.rng.Intn(5) < 3 {
			mgr := appliers[e.rng.Intn(len(appliers))]
			ver := c.versions[e.rng.Intn(len(c.versions))].name
			v, tv := genConfig(e, c, ver, st, nil, opts.plainConfigs)
			if tv == nil {
				continue
			}
			next := emitApply(e, c, st, mgr, ver, v, tv)
			if next != st {
				prevCfg[mgr] = v
			}
			st = next
		} else {
			mgr := updaters[e.rng.Intn(len(updaters))]
			ver, ok := updVer[mgr] // an updater identity mostly keeps its version ...
			if !ok || (prop == "C19" && e.rng.Intn(3) == 0) {
				// ... but may come back at another one, where other fields are ignored
				ver = c.versions[e.rng.Intn(len(c.versions))].name
				updVer[mgr] = ver
			}
			v, tv := genUpdateObject(e, c, ver, st, opts)
			if tv == nil {
				continue
			}
			st = emitUpdate(e, c, st, mgr, ver, v, tv)
		}
		if after != nil {
			after(st)
		}
	}
}

// the same history run under two configurations that must be equivalent
func runHistoryPair(e *emitter, a, b *histConf) {
	opts := histOpts{plainConfigs: true, degenerate: e.rng.Intn(2) == 0}
	sta := newState(a, "v1")
	stb := newState(b, "v1")
	updVer := map[string]string{}
	steps := 3 + e.rng.Intn(6)
	for i := 0; i < steps; i++ {
		isApply := e.rng.Intn(5) < 3
		var mgr, ver string
		if isApply {
			mgr = appliers[e.rng.Intn(len(appliers))]
			ver = a.versions[e.rng.Intn(len(a.versions))].name
		} else {
			mgr = updaters[e.rng.Intn(len(updaters))]
			var ok bool
			if ver, ok = updVer[mgr]; !ok {
				ver = a.versions[e.rng.Intn(len(a.versions))].name
				updVer[mgr] = ver
			}
		}
		var outA, outB string
		if isApply {
			v, tv := genConfig(e, a, ver, sta, nil, true)
			if tv == nil {
				continue
			}
			mark := e.n
			sta = emitApply(e, a, sta, mgr, ver, v, tv)
			_ = mark
			tvb := b.typedAt(ver, v, false)
			stb = emitApply(e, b, stb, mgr, ver, v, tvb)
		} else {
			v, tv := genUpdateObject(e, a, ver, sta, opts)
			if tv == nil {
				continue
			}
			sta = emitUpdate(e, a, sta, mgr, ver, v, tv)
			tvb := b.typedAt(ver, v, true)
			stb = emitUpdate(e, b, stb, mgr, ver, v, tvb)
		}
		outA = sexpTV(sta.liveVer, sta.live) + " " + sexpManaged(sta.managed)
		outB = sexpTV(stb.liveVer, stb.live) + " " + sexpManaged(stb.managed)
		e.line(fmt.Sprintf("(c19.same %s %s %s)", quote(a.id), quote(b.id), sexpBool(outA == outB)))
		if outA != outB {
			return
		}
	}
}

// stand-alone filter operations on the C15 universe
func genC19Filters(e *emitter, tier string) {
	full := pathUniverse()
	names := []string{"a", "b", "c", "d", "*"}
	n := 400
	if tier == "thorough" {
		n = 20000
	}
	for k := 0; k < n; k++ {
		var s []fieldpath.Path
		for _, p := range full {
			if e.rng.Intn(2) == 0 {
				s = append(s, p)
			}
		}
		np := 1 + e.rng.Intn(4)
		var pats [][]string
		for i := 0; i < np; i++ {
			l := 1 + e.rng.Intn(3)
			var p []string
			for j := 0; j < l; j++ {
				p = append(p, names[e.rng.Intn(len(names))])
			}
			pats = append(pats, p)
		}
		var ms []*fieldpath.SetMatcher
		var sb strings.Builder
		sb.WriteString("(pats")
		for _, p := range pats {
			parts := make([]interface{}, len(p))
			sb.WriteString(" (pat")
			for i, x := range p {
				if x == "*" {
					parts[i] = fieldpath.MatchAnyPathElement()
					sb.WriteString(" *")
				} else {
					parts[i] = x
					sb.WriteString(" (F " + quote(x) + ")")
				}
			}
			sb.WriteString(")")
			ms = append(ms, fieldpath.MakePrefixMatcherOrDie(parts...))
		}
		sb.WriteString(")")
		set := fieldpath.NewSet(s...)
		res := guard(func() string { return sexpSet(fieldpath.NewIncludeMatcherFilter(ms...).Filter(set)) })
		e.line(fmt.Sprintf("(c19.include %s %s %s)", sb.String(), sexpPaths(s), res))
		// pattern values are built once and shared between filters by callers: a filter
		// made from the FIRST of the same values alone must keep what that pattern keeps
		if len(ms) >= 2 {
			var one strings.Builder
			one.WriteString("(pats (pat")
			for _, x := range pats[0] {
				if x == "*" {
					one.WriteString(" *")
				} else {
					one.WriteString(" (F " + quote(x) + ")")
				}
			}
			one.WriteString("))")
			res1 := guard(func() string { return sexpSet(fieldpath.NewIncludeMatcherFilter(ms[0]).Filter(set)) })
			e.line(fmt.Sprintf("(c19.include %s %s %s)", one.String(), sexpPaths(s), res1))
		}
		// exclusion filter = recursive difference
		var ex []fieldpath.Path
		for _, p := range full {
			if e.rng.Intn(5) == 0 {
				ex = append(ex, p)
			}
		}
		exs := fieldpath.NewSet(ex...)
		res2 := guard(func() string { return sexpSet(fieldpath.NewExcludeSetFilter(exs).Filter(set)) })
		e.line(fmt.Sprintf("(c19.exclude %s %s %s)", sexpPaths(ex), sexpPaths(s), res2))
	}
}
