package main

func genC17Schemas(e *emitter, tier string) {}
