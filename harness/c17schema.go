package main

import (
	"fmt"
	"strings"

	"sigs.k8s.io/structured-merge-diff/v6/typed"
)

// schema equality: two parses of one document are equal; a single-point edit makes them
// differ exactly when the structures differ (decided by the model's structural equality)
func genC17Schemas(e *emitter, tier string) {
	docs := []string{kitchenYAML, smallYAML, deducedYAML}
	edits := [][2]string{
		{"elementRelationship: associative", "elementRelationship: atomic"},
		{"elementRelationship: atomic", "elementRelationship: associative"},
		{"elementRelationship: atomic", "elementRelationship: separable"},
		{"scalar: numeric", "scalar: string"},
		{"scalar: untyped", "scalar: numeric"},
		{"namedType: sub", "namedType: item"},
		{"- name: xx", "- name: xy"},
		{"          - name\n", "          - vv\n"},
		{"      default: \"TCP\"", "      default: \"UDP\""},
		{"      default: \"TCP\"", ""},
		{"      default: {}", "      default: {\"k\": \"v\"}"},
		{"      default: [\"x\"]", "      default: [\"x\", \"y\"]"},
		{"      default: [\"x\"]", "      default: {}"},
		{"namedType: __untyped_atomic_", "namedType: __untyped_deduced_"},
	}
	n := 40
	if tier == "thorough" {
		n = 600
	}
	emit := func(a, b string) {
		pa, err1 := typed.NewParser(typed.YAMLObject(a))
		pb, err2 := typed.NewParser(typed.YAMLObject(b))
		if err1 != nil || err2 != nil {
			return
		}
		res := "panic"
		func() {
			defer func() { recover() }()
			res = sexpBool(pa.Schema.Equals(&pb.Schema) && pb.Schema.Equals(&pa.Schema))
		}()
		e.line(fmt.Sprintf("(c17.schemaeq %s %s %s)", sexpSchema(&pa.Schema), sexpSchema(&pb.Schema), res))
	}
	for _, d := range docs {
		emit(d, d)
	}
	for i := 0; i < n; i++ {
		d := docs[e.rng.Intn(len(docs))]
		ed := edits[e.rng.Intn(len(edits))]
		cnt := strings.Count(d, ed[0])
		if cnt == 0 {
			continue
		}
		// replace the k-th occurrence only
		k := e.rng.Intn(cnt)
		idx := -1
		pos := 0
		for j := 0; j <= k; j++ {
			off := strings.Index(d[pos:], ed[0])
			idx = pos + off
			pos = idx + len(ed[0])
		}
		d2 := d[:idx] + ed[1] + d[idx+len(ed[0]):]
		emit(d, d2)
		emit(d2, d2)
	}
}
