package main

// The generated schema family: structs, maps with element type, sets of scalars, keyed
// associative lists (one key, several keys, defaulted keys), atomic lists/maps/structs,
// named recursive types, named/inlined/relationship-overriding references, and the
// schemaless deduced type.  Field names avoid the YAML 1.1 boolean spellings.

import (
	"fmt"

	"sigs.k8s.io/structured-merge-diff/v6/schema"
	"sigs.k8s.io/structured-merge-diff/v6/typed"
)

const deducedTypes = `
- name: __untyped_atomic_
  scalar: untyped
  list:
    elementType:
      namedType: __untyped_atomic_
    elementRelationship: atomic
  map:
    elementType:
      namedType: __untyped_atomic_
    elementRelationship: atomic
- name: __untyped_deduced_
  scalar: untyped
  list:
    elementType:
      namedType: __untyped_atomic_
    elementRelationship: atomic
  map:
    elementType:
      namedType: __untyped_deduced_
    elementRelationship: separable
`

const kitchenYAML = `types:
- name: root
  map:
    fields:
    - name: str
      type:
        scalar: string
    - name: num
      type:
        scalar: numeric
    - name: flag
      type:
        scalar: boolean
    - name: any
      type:
        scalar: untyped
    - name: sub
      type:
        namedType: sub
    - name: smap
      type:
        map:
          elementType:
            namedType: sub
    - name: nmap
      type:
        map:
          elementType:
            scalar: numeric
    - name: sset
      type:
        list:
          elementType:
            scalar: string
          elementRelationship: associative
    - name: nset
      type:
        list:
          elementType:
            scalar: numeric
          elementRelationship: associative
    - name: items
      type:
        list:
          elementType:
            namedType: item
          elementRelationship: associative
          keys:
          - name
    - name: mk
      type:
        list:
          elementType:
            namedType: mkitem
          elementRelationship: associative
          keys:
          - ka
          - kb
    - name: ports
      type:
        list:
          elementType:
            namedType: port
          elementRelationship: associative
          keys:
          - port
          - proto
    - name: alist
      type:
        list:
          elementType:
            scalar: numeric
          elementRelationship: atomic
    - name: amap
      type:
        map:
          elementType:
            scalar: untyped
          elementRelationship: atomic
    - name: astruct
      type:
        namedType: sub
        elementRelationship: atomic
    - name: aitems
      type:
        namedType: itemlist
        elementRelationship: atomic
    - name: gitems
      type:
        namedType: itemlist
    - name: ssub
      type:
        namedType: sub
        elementRelationship: separable
    - name: sitems
      type:
        namedType: itemlist
        elementRelationship: associative
    - name: mk3
      type:
        list:
          elementType:
            namedType: mk3item
          elementRelationship: associative
          keys:
          - ka
          - kb
          - kc
    - name: rules
      type:
        list:
          elementType:
            namedType: rule
          elementRelationship: associative
          keys:
          - name
    - name: ded
      type:
        namedType: __untyped_deduced_
    - name: ia
      type:
        map:
          fields:
          - name: host
            type:
              scalar: string
        elementRelationship: atomic
    - name: ib
      type:
        map:
          fields:
          - name: portn
            type:
              scalar: numeric
        elementRelationship: atomic
    - name: il
      type:
        list:
          elementType:
            scalar: string
          elementRelationship: associative
        elementRelationship: atomic
    - name: pres
      type:
        namedType: pres
    - name: dfm
      type:
        map:
          elementType:
            scalar: string
      default: {}
    - name: dfl
      type:
        list:
          elementType:
            scalar: string
          elementRelationship: atomic
      default: ["x"]
- name: pres
  map:
    fields:
    - name: nn
      type:
        scalar: string
    - name: tags
      type:
        list:
          elementType:
            scalar: string
          elementRelationship: associative
    - name: ports
      type:
        list:
          elementType:
            namedType: port
          elementRelationship: associative
          keys:
          - port
          - proto
    elementType:
      namedType: __untyped_deduced_
- name: sub
  map:
    fields:
    - name: xx
      type:
        scalar: numeric
    - name: ww
      type:
        scalar: string
    - name: rec
      type:
        namedType: sub
- name: item
  map:
    fields:
    - name: name
      type:
        scalar: string
    - name: vv
      type:
        scalar: numeric
    - name: tags
      type:
        list:
          elementType:
            scalar: string
          elementRelationship: associative
    - name: sub
      type:
        namedType: sub
- name: mkitem
  map:
    fields:
    - name: ka
      type:
        scalar: string
    - name: kb
      type:
        scalar: numeric
    - name: vv
      type:
        scalar: untyped
- name: mk3item
  map:
    fields:
    - name: ka
      type:
        scalar: string
    - name: kb
      type:
        scalar: numeric
    - name: kc
      type:
        scalar: string
    - name: vv
      type:
        scalar: numeric
- name: port
  map:
    fields:
    - name: port
      type:
        scalar: numeric
    - name: proto
      type:
        scalar: string
      default: "TCP"
    - name: nm
      type:
        scalar: string
- name: rule
  map:
    fields:
    - name: name
      type:
        scalar: string
    - name: vv
      type:
        scalar: numeric
    elementRelationship: atomic
- name: itemlist
  list:
    elementType:
      namedType: item
    elementRelationship: associative
    keys:
    - name
` + deducedTypes

// a small schema used for exhaustive exploration and most Updater histories
const smallYAML = `types:
- name: root
  map:
    fields:
    - name: aa
      type:
        scalar: numeric
    - name: st
      type:
        namedType: st
    - name: sset
      type:
        list:
          elementType:
            scalar: string
          elementRelationship: associative
    - name: items
      type:
        list:
          elementType:
            namedType: item
          elementRelationship: associative
          keys:
          - name
    - name: mm
      type:
        map:
          elementType:
            namedType: st
    - name: rules
      type:
        list:
          elementType:
            namedType: rule
          elementRelationship: associative
          keys:
          - name
- name: st
  map:
    fields:
    - name: cc
      type:
        scalar: numeric
    - name: dd
      type:
        scalar: string
    - name: ll
      type:
        list:
          elementType:
            scalar: string
          elementRelationship: associative
    - name: nn
      type:
        namedType: st2
- name: st2
  map:
    fields:
    - name: ee
      type:
        scalar: numeric
    - name: ff
      type:
        list:
          elementType:
            scalar: string
          elementRelationship: associative
- name: item
  map:
    fields:
    - name: name
      type:
        scalar: string
    - name: vv
      type:
        scalar: numeric
    - name: st
      type:
        namedType: st
- name: rule
  map:
    fields:
    - name: name
      type:
        scalar: string
    - name: vv
      type:
        scalar: numeric
    elementRelationship: atomic
`

const deducedYAML = `types:
- name: root
  map:
    elementType:
      namedType: __untyped_deduced_
` + deducedTypes

type schemaDef struct {
	id     string
	yaml   string
	parser *typed.Parser
	roots  []schema.TypeRef // type references exercised as roots
}

func nameRef(n string) schema.TypeRef { return schema.TypeRef{NamedType: &n} }

func overrideRef(n string, r schema.ElementRelationship) schema.TypeRef {
	return schema.TypeRef{NamedType: &n, ElementRelationship: &r}
}

var schemaCache []*schemaDef

func schemaMenu() []*schemaDef {
	if schemaCache != nil {
		return schemaCache
	}
	mk := func(id, y string, roots ...schema.TypeRef) *schemaDef {
		p, err := typed.NewParser(typed.YAMLObject(y))
		if err != nil {
			panic(fmt.Sprintf("schema %s: %v", id, err))
		}
		return &schemaDef{id: id, yaml: y, parser: p, roots: roots}
	}
	schemaCache = []*schemaDef{
		mk("kitchen", kitchenYAML, nameRef("root"), nameRef("sub"), nameRef("pres"), nameRef("itemlist"),
			overrideRef("itemlist", schema.Atomic), nameRef("item"), overrideRef("sub", schema.Atomic)),
		mk("small", smallYAML, nameRef("root")),
		mk("deduced", deducedYAML, nameRef("root"), nameRef("__untyped_deduced_")),
	}
	return schemaCache
}

func emitSchemas(e *emitter) {
	for _, sd := range schemaMenu() {
		e.line("(defschema " + quote(sd.id) + " " + sexpSchema(&sd.parser.Schema) + ")")
	}
}
