package main

import (
	"fmt"
	"regexp"
	"strings"

	"sigs.k8s.io/structured-merge-diff/v6/fieldpath"
	"sigs.k8s.io/structured-merge-diff/v6/schema"
	"sigs.k8s.io/structured-merge-diff/v6/typed"
	"sigs.k8s.io/structured-merge-diff/v6/value"
)

func init() { generators["C20"] = genC20 }

func renameYAML(y string, ren map[string]string) string {
	for from, to := range ren {
		re := regexp.MustCompile(`(?m)^(\s*- name: )` + regexp.QuoteMeta(from) + `$`)
		y = re.ReplaceAllString(y, "${1}"+to)
	}
	return y
}

var c20Schemas []*schemaDef

func c20Confs() (multi, single, gone *histConf) {
	base := schemaMenu()[1]
	r2 := map[string]string{"aa": "ab", "cc": "cd", "vv": "vw"}
	r3 := map[string]string{"aa": "ac", "dd": "de", "mm": "mn"}
	mk := func(id string, ren map[string]string) *schemaDef {
		y := renameYAML(smallYAML, ren)
		p, err := typed.NewParser(typed.YAMLObject(y))
		if err != nil {
			panic(err)
		}
		return &schemaDef{id: id, yaml: y, parser: p, roots: []schema.TypeRef{nameRef("root")}}
	}
	if c20Schemas == nil {
		c20Schemas = []*schemaDef{mk("small-v2", r2), mk("small-v3", r3)}
	}
	vs := func() []*versionDef {
		return []*versionDef{
			{name: "v1", sd: base, tr: base.roots[0]},
			{name: "v2", sd: c20Schemas[0], tr: c20Schemas[0].roots[0], rename: r2},
			{name: "v3", sd: c20Schemas[1], tr: c20Schemas[1].roots[0], rename: r3},
		}
	}
	multi = &histConf{id: "mv", versions: vs()}
	single = &histConf{id: "sv", versions: vs()[:1]}
	gone = &histConf{id: "mv-gone", versions: vs(), missing: map[string]bool{"v2": true}}
	return
}

func convertUnstructured(c *histConf, from, to string, v interface{}) interface{} {
	f, t := c.version(from), c.version(to)
	inv := map[string]string{}
	for k, x := range f.rename {
		inv[x] = k
	}
	return renameValue(deepCopyAny(v), func(k string) string {
		b := k
		if bb, ok := inv[k]; ok {
			b = bb
		}
		if n, ok := t.rename[b]; ok {
			return n
		}
		return b
	})
}

func genC20(e *emitter, tier string) {
	emitSchemas(e)
	multi, single, gone := c20Confs()
	for _, sd := range c20Schemas {
		e.line("(defschema " + quote(sd.id) + " " + sexpSchema(&sd.parser.Schema) + ")")
	}
	e.line("(setprop \"C20\")")
	for _, c := range []*histConf{multi, single, gone} {
		e.line(sexpConf(c))
	}
	n := 500
	if tier == "thorough" {
		n = 16000
	}
	n /= shardCount
	var records []*fieldpath.Set
	for h := 0; h < n; h++ {
		if e.rng.Intn(4) == 0 {
			runHistoryGone(e, multi, gone)
		} else {
			runHistorySim(e, multi, single, &records)
		}
	}
	genC20Reconcile(e, tier, records)
}

// the same history run over several versions and, translated, over one
func runHistorySim(e *emitter, multi, single *histConf, records *[]*fieldpath.Set) {
	opts := histOpts{plainConfigs: true, degenerate: e.rng.Intn(3) == 0}
	stm := newState(multi, "v1")
	sts := newState(single, "v1")
	updVer := map[string]string{}
	steps := 3 + e.rng.Intn(6)
	for i := 0; i < steps; i++ {
		isApply := e.rng.Intn(5) < 3
		var mgr, ver string
		if isApply {
			mgr = appliers[e.rng.Intn(len(appliers))]
			ver = multi.versions[e.rng.Intn(len(multi.versions))].name
		} else {
			mgr = updaters[e.rng.Intn(len(updaters))]
			var ok bool
			if ver, ok = updVer[mgr]; !ok {
				ver = multi.versions[e.rng.Intn(len(multi.versions))].name
				updVer[mgr] = ver
			}
		}
		if isApply {
			v, tv := genConfig(e, multi, ver, stm, nil, true)
			if tv == nil {
				continue
			}
			v1 := convertUnstructured(multi, ver, "v1", v)
			tv1 := single.typedAt("v1", v1, false)
			if tv1 == nil {
				continue
			}
			nm := emitApply(e, multi, stm, mgr, ver, v, tv)
			ns := emitApplyQuiet(single, sts, mgr, "v1", tv1)
			if (nm == stm) != (ns == sts) {
				e.line(fmt.Sprintf("(c20.diverged %s)", quote("apply succeeded in one run only")))
				return
			}
			stm, sts = nm, ns
		} else {
			v, tv := genUpdateObject(e, multi, ver, stm, opts)
			if tv == nil {
				continue
			}
			v1 := convertUnstructured(multi, ver, "v1", v)
			tv1 := single.typedAt("v1", v1, true)
			if tv1 == nil {
				continue
			}
			stm = emitUpdate(e, multi, stm, mgr, ver, v, tv)
			res := runUpdate(single, sts, mgr, "v1", tv1, -1)
			if res.ok() {
				sts = &hstate{live: res.obj, liveVer: "v1", managed: res.managed}
			}
		}
		lm, ok := stm.liveAt(multi, "v1")
		if !ok {
			return
		}
		for _, r := range stm.managed {
			if len(*records) < 400 {
				*records = append(*records, r.Set())
			}
		}
		e.line(fmt.Sprintf("(c20.sim %s %s %s %s %s)", quote(multi.id), sexpTV("v1", lm), sexpManaged(stm.managed), sexpTV("v1", sts.live), sexpManaged(sts.managed)))
		if !value.Equals(lm.AsValue(), sts.live.AsValue()) {
			return // compare only up to the first divergence
		}
	}
}

func emitApplyQuiet(c *histConf, st *hstate, mgr, ver string, cfg *typed.TypedValue) *hstate {
	live, ok := st.liveAt(c, ver)
	if !ok {
		return st
	}
	pre := &hstate{live: live, liveVer: ver, managed: st.managed}
	res := runApply(c, pre, mgr, ver, cfg, false, false, -1)
	if !res.ok() {
		res = runApply(c, pre, mgr, ver, cfg, true, false, -1)
	}
	if !res.ok() {
		return st
	}
	obj := res.obj
	if obj == nil {
		obj = live
	}
	return &hstate{live: obj, liveVer: ver, managed: res.managed}
}

// a history in whose second half the converter reports version v2 as gone
func runHistoryGone(e *emitter, multi, gone *histConf) {
	opts := histOpts{plainConfigs: true}
	st := newState(multi, "v1")
	updVer := map[string]string{}
	steps := 4 + e.rng.Intn(5)
	for i := 0; i < steps; i++ {
		c := multi
		if i >= steps/2 {
			c = gone
		}
		vers := []string{"v1", "v2", "v3"}
		if c == gone {
			vers = []string{"v1", "v3"}
		}
		if e.rng.Intn(5) < 3 {
			mgr := appliers[e.rng.Intn(len(appliers))]
			ver := vers[e.rng.Intn(len(vers))]
			v, tv := genConfig(e, c, ver, st, nil, true)
			if tv == nil {
				continue
			}
			st = emitApply(e, c, st, mgr, ver, v, tv)
		} else {
			mgr := updaters[e.rng.Intn(len(updaters))]
			ver, ok := updVer[mgr]
			if !ok || (c == gone && ver == "v2") {
				ver = vers[e.rng.Intn(len(vers))]
				updVer[mgr] = ver
			}
			v, tv := genUpdateObject(e, c, ver, st, opts)
			if tv == nil {
				continue
			}
			st = emitUpdate(e, c, st, mgr, ver, v, tv)
		}
	}
}

// ---- reconcile with schemas in which fields switched between granular and atomic ----

func atomicVariant(mask int) string {
	y := smallYAML
	if mask&1 != 0 { // struct st referenced atomically
		y = strings.Replace(y, "    - name: st\n      type:\n        namedType: st\n    - name: sset", "    - name: st\n      type:\n        namedType: st\n        elementRelationship: atomic\n    - name: sset", 1)
	}
	if mask&2 != 0 { // set becomes an atomic list
		y = strings.Replace(y, "            scalar: string\n          elementRelationship: associative", "            scalar: string\n          elementRelationship: atomic", 1)
	}
	if mask&4 != 0 { // keyed list becomes atomic
		y = strings.Replace(y, "            namedType: item\n          elementRelationship: associative\n          keys:\n          - name", "            namedType: item\n          elementRelationship: atomic", 1)
	}
	if mask&8 != 0 { // map becomes atomic
		y = strings.Replace(y, "        map:\n          elementType:\n            namedType: st\n", "        map:\n          elementType:\n            namedType: st\n          elementRelationship: atomic\n", 1)
	}
	if mask&16 != 0 { // the struct inside list items becomes atomic
		y = strings.Replace(y, "    - name: vv\n      type:\n        scalar: numeric\n    - name: st\n      type:\n        namedType: st\n", "    - name: vv\n      type:\n        scalar: numeric\n    - name: st\n      type:\n        namedType: st\n        elementRelationship: atomic\n", 1)
	}
	return y
}

func genC20Reconcile(e *emitter, tier string, records []*fieldpath.Set) {
	base := schemaMenu()[1]
	n := 300
	if tier == "thorough" {
		n = 6000
	}
	n /= shardCount
	for mask := 0; mask < 32; mask++ {
		y := atomicVariant(mask)
		p, err := typed.NewParser(typed.YAMLObject(y))
		if err != nil {
			panic(fmt.Sprintf("variant %d: %v", mask, err))
		}
		id := fmt.Sprintf("small-a%d", mask)
		e.line("(defschema " + quote(id) + " " + sexpSchema(&p.Schema) + ")")
		tr := nameRef("root")
		tv, _ := typed.AsTyped(value.NewValueInterface(nil), &p.Schema, tr)
		for k := 0; k < n/32+1; k++ {
			var set *fieldpath.Set
			if len(records) > 0 && e.rng.Intn(2) == 0 {
				set = records[e.rng.Intn(len(records))]
			} else {
				v := genValue(e.rng, &base.parser.Schema, base.roots[0], genMode{}, 4)
				btv := typedOf(base, base.roots[0], v, false)
				if btv == nil {
					continue
				}
				fs, err := btv.ToFieldSet()
				if err != nil {
					continue
				}
				set = fs
				if e.rng.Intn(2) == 0 {
					set = fs.Leaves()
				}
			}
			res, again := "panic", "-"
			func() {
				defer func() { recover() }()
				out, err := typed.ReconcileFieldSetWithSchema(set, tv)
				switch {
				case err != nil:
					res = "err"
				case out == nil:
					res = "unchanged"
					out = set
				default:
					res = sexpSet(out)
				}
				if err == nil {
					out2, err2 := typed.ReconcileFieldSetWithSchema(out, tv)
					switch {
					case err2 != nil:
						again = "err"
					case out2 == nil:
						again = "unchanged"
					default:
						again = sexpSet(out2)
					}
				}
			}()
			e.line(fmt.Sprintf("(c20.reconcile %s %s %s %s %s)", quote(id), sexpTypeRef(tr), sexpSet(set), res, again))
		}
	}
}
