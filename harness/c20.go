package main

import (
	"fmt"
	"regexp"
	"strings"

	"sigs.k8s.io/structured-merge-diff/v6/fieldpath"
	"sigs.k8s.io/structured-merge-diff/v6/schema"
	"sigs.k8s.io/structured-merge-diff/v6/typed"
	"sigs.k8s.io/structured-merge-diff/v6/value"
)

func init() { generators["C20"] = genC20 }

func renameYAML(y string, ren map[string]string) string {
	for from, to := range ren {
		re := regexp.MustCompile(`(?m)^(\s*- name: )` + regexp.QuoteMeta(from) + `$`)
		y = re.ReplaceAllString(y, "${1}"+to)
	}
	return y
}

var c20Schemas []*schemaDef

func c20Confs() (multi, single, gone *histConf) {
	base := schemaMenu()[1]
	r2 := map[string]string{"aa": "ab", "cc": "cd", "vv": "vw"}
	r3 := map[string]string{"aa": "ac", "dd": "de", "mm": "mn"}
	mk := func(id string, ren map[string]string) *schemaDef {
		y := renameYAML(smallYAML, ren)
		p, err := typed.NewParser(typed.YAMLObject(y))
		if err != nil {
			panic(err)
		}
		return &schemaDef{id: id, yaml: y, parser: p, roots: []schema.TypeRef{nameRef("root")}}
	}
	if c20Schemas == nil {
		c20Schemas = []*schemaDef{mk("small-v2", r2), mk("small-v3", r3)}
	}
	vs := func() []*versionDef {
		return []*versionDef{
			{name: "v1", sd: base, tr: base.roots[0]},
			{name: "v2", sd: c20Schemas[0], tr: c20Schemas[0].roots[0], rename: r2},
			{name: "v3", sd: c20Schemas[1], tr: c20Schemas[1].roots[0], rename: r3},
		}
	}
	multi = &histConf{id: "mv", versions: vs()}
	single = &histConf{id: "sv", versions: vs()[:1]}
	gone = &histConf{id: "mv-gone", versions: vs(), missing: map[string]bool{"v2": true}}
	return
}

func convertUnstructured(c *histConf, from, to string, v interface{}) interface{} {
	f, t := c.version(from), c.version(to)
	inv := map[string]string{}
	for k, x := range f.rename {
		inv[x] = k
	}
	return renameValue(deepCopyAny(v), func(k string) string {
		b := k
		if bb, ok := inv[k]; ok {
			b = bb
		}
		if n, ok := t.rename[b]; ok {
			return n
		}
		return b
	})
}

func genC20(e *emitter, tier string) {
	emitSchemas(e)
	multi, single, gone := c20Confs()
	for _, sd := range c20Schemas {
		e.line("(defschema " + quote(sd.id) + " " + sexpSchema(&sd.parser.Schema) + ")")
	}
	e.line("(setprop \"C20\")")
	for _, c := range []*histConf{multi, single, gone} {
		e.line(sexpConf(c))
	}
	n := 500
	if tier == "thorough" {
		n = 16000
	}
	n /= shardCount
	var records []*fieldpath.Set
	for h := 0; h < n; h++ {
		switch e.rng.Intn(8) {
		case 0, 1:
			runHistoryGone(e, multi, gone)
		case 2, 3:
			runNestingScenario(e, multi, single)
		default:
			runHistorySim(e, multi, single, &records)
		}
	}
	genC20Reconcile(e, tier, records)
}

// the same history run over several versions and, translated, over one
func runHistorySim(e *emitter, multi, single *histConf, records *[]*fieldpath.Set) {
	opts := histOpts{plainConfigs: true, degenerate: e.rng.Intn(3) == 0, noDups: false}
	stm := newState(multi, "v1")
	sts := newState(single, "v1")
	updVer := map[string]string{}
	steps := 3 + e.rng.Intn(6)
	for i := 0; i < steps; i++ {
		isApply := e.rng.Intn(5) < 3
		var mgr, ver string
		if isApply {
			mgr = appliers[e.rng.Intn(len(appliers))]
			ver = multi.versions[e.rng.Intn(len(multi.versions))].name
		} else {
			mgr = updaters[e.rng.Intn(len(updaters))]
			var ok bool
			if ver, ok = updVer[mgr]; !ok {
				ver = multi.versions[e.rng.Intn(len(multi.versions))].name
				updVer[mgr] = ver
			}
		}
		if isApply {
			v, tv := genConfig(e, multi, ver, stm, nil, true)
			if tv == nil {
				continue
			}
			v1 := convertUnstructured(multi, ver, "v1", v)
			tv1 := single.typedAt("v1", v1, false)
			if tv1 == nil {
				continue
			}
			nm := emitApply(e, multi, stm, mgr, ver, v, tv)
			ns := emitApplyQuiet(single, sts, mgr, "v1", tv1)
			if (nm == stm) != (ns == sts) {
				e.line(fmt.Sprintf("(c20.diverged %s)", quote("apply succeeded in one run only")))
				return
			}
			stm, sts = nm, ns
		} else {
			v, tv := genUpdateObject(e, multi, ver, stm, opts)
			if tv == nil {
				continue
			}
			v1 := convertUnstructured(multi, ver, "v1", v)
			tv1 := single.typedAt("v1", v1, true)
			if tv1 == nil {
				continue
			}
			stm = emitUpdate(e, multi, stm, mgr, ver, v, tv)
			res := runUpdate(single, sts, mgr, "v1", tv1, -1)
			if res.ok() {
				sts = &hstate{live: res.obj, liveVer: "v1", managed: res.managed}
			}
		}
		lm, ok := stm.liveAt(multi, "v1")
		if !ok {
			return
		}
		for _, r := range stm.managed {
			if len(*records) < 400 {
				*records = append(*records, r.Set())
			}
		}
		e.line(fmt.Sprintf("(c20.sim %s %s %s %s %s)", quote(multi.id), sexpTV("v1", lm), sexpManaged(stm.managed), sexpTV("v1", sts.live), sexpManaged(sts.managed)))
		if !value.Equals(lm.AsValue(), sts.live.AsValue()) {
			return // compare only up to the first divergence
		}
	}
}

func emitApplyQuiet(c *histConf, st *hstate, mgr, ver string, cfg *typed.TypedValue) *hstate {
	live, ok := st.liveAt(c, ver)
	if !ok {
		return st
	}
	pre := &hstate{live: live, liveVer: ver, managed: st.managed}
	res := runApply(c, pre, mgr, ver, cfg, false, false, -1)
	if !res.ok() {
		res = runApply(c, pre, mgr, ver, cfg, true, false, -1)
	}
	if !res.ok() {
		return st
	}
	obj := res.obj
	if obj == nil {
		obj = live
	}
	return &hstate{live: obj, liveVer: ver, managed: res.managed}
}

// a history in whose second half the converter reports version v2 as gone
func runHistoryGone(e *emitter, multi, gone *histConf) {
	opts := histOpts{plainConfigs: true}
	st := newState(multi, "v1")
	updVer := map[string]string{}
	steps := 4 + e.rng.Intn(5)
	for i := 0; i < steps; i++ {
		c := multi
		if i >= steps/2 {
			c = gone
		}
		vers := []string{"v1", "v2", "v3"}
		if c == gone {
			vers = []string{"v1", "v3"}
		}
		if e.rng.Intn(5) < 3 {
			mgr := appliers[e.rng.Intn(len(appliers))]
			ver := vers[e.rng.Intn(len(vers))]
			v, tv := genConfig(e, c, ver, st, nil, true)
			if tv == nil {
				continue
			}
			st = emitApply(e, c, st, mgr, ver, v, tv)
		} else {
			mgr := updaters[e.rng.Intn(len(updaters))]
			ver, ok := updVer[mgr]
			if !ok || (c == gone && ver == "v2") {
				ver = vers[e.rng.Intn(len(vers))]
				updVer[mgr] = ver
			}
			v, tv := genUpdateObject(e, c, ver, st, opts)
			if tv == nil {
				continue
			}
			st = emitUpdate(e, c, st, mgr, ver, v, tv)
		}
	}
}

// ---- reconcile with schemas in which fields switched between granular and atomic ----

func atomicVariant(mask int) string {
	y := smallYAML
	if mask&1 != 0 { // struct st referenced atomically
		y = strings.Replace(y, "    - name: st\n      type:\n        namedType: st\n    - name: sset", "    - name: st\n      type:\n        namedType: st\n        elementRelationship: atomic\n    - name: sset", 1)
	}
	if mask&2 != 0 { // set becomes an atomic list
		y = strings.Replace(y, "            scalar: string\n          elementRelationship: associative", "            scalar: string\n          elementRelationship: atomic", 1)
	}
	if mask&4 != 0 { // keyed list becomes atomic
		y = strings.Replace(y, "            namedType: item\n          elementRelationship: associative\n          keys:\n          - name", "            namedType: item\n          elementRelationship: atomic", 1)
	}
	if mask&8 != 0 { // map becomes atomic
		y = strings.Replace(y, "        map:\n          elementType:\n            namedType: st\n", "        map:\n          elementType:\n            namedType: st\n          elementRelationship: atomic\n", 1)
	}
	if mask&16 != 0 { // the struct inside list items becomes atomic
		y = strings.Replace(y, "    - name: vv\n      type:\n        scalar: numeric\n    - name: st\n      type:\n        namedType: st\n", "    - name: vv\n      type:\n        scalar: numeric\n    - name: st\n      type:\n        namedType: st\n        elementRelationship: atomic\n", 1)
	}
	if mask&32 != 0 { // the structs held by the map become atomic (an atomic field one level
		// deeper, under a sibling that sorts after "items")
		y = strings.Replace(y, "        map:\n          elementType:\n            namedType: st\n", "        map:\n          elementType:\n            namedType: st\n            elementRelationship: atomic\n", 1)
	}
	if mask&64 != 0 && mask&4 == 0 { // the ELEMENTS of the keyed list become atomic, the list stays associative
		y = strings.Replace(y, "            namedType: item\n          elementRelationship: associative\n          keys:\n          - name", "            namedType: item\n            elementRelationship: atomic\n          elementRelationship: associative\n          keys:\n          - name", 1)
	}
	return y
}

func genC20Reconcile(e *emitter, tier string, records []*fieldpath.Set) {
	base := schemaMenu()[1]
	n := 600
	if tier == "thorough" {
		n = 6000
	}
	n /= shardCount
	for mask := 0; mask < 128; mask++ {
		y := atomicVariant(mask)
		p, err := typed.NewParser(typed.YAMLObject(y))
		if err != nil {
			panic(fmt.Sprintf("variant %d: %v", mask, err))
		}
		id := fmt.Sprintf("small-a%d", mask)
		e.line("(defschema " + quote(id) + " " + sexpSchema(&p.Schema) + ")")
		tr := nameRef("root")
		tv, _ := typed.AsTyped(value.NewValueInterface(nil), &p.Schema, tr)
		for k := 0; k < n/128+1; k++ {
			var set *fieldpath.Set
			if len(records) > 0 && e.rng.Intn(2) == 0 {
				set = records[e.rng.Intn(len(records))]
			} else {
				v := genValue(e.rng, &base.parser.Schema, base.roots[0], genMode{}, 4)
				btv := typedOf(base, base.roots[0], v, false)
				if btv == nil {
					continue
				}
				fs, err := btv.ToFieldSet()
				if err != nil {
					continue
				}
				set = fs
				if e.rng.Intn(2) == 0 {
					set = fs.Leaves()
				}
			}
			res, again := "panic", "-"
			func() {
				defer func() { recover() }()
				out, err := typed.ReconcileFieldSetWithSchema(set, tv)
				switch {
				case err != nil:
					res = "err"
				case out == nil:
					res = "unchanged"
					out = set
				default:
					res = sexpSet(out)
				}
				if err == nil {
					out2, err2 := typed.ReconcileFieldSetWithSchema(out, tv)
					switch {
					case err2 != nil:
						again = "err"
					case out2 == nil:
						again = "unchanged"
					default:
						again = sexpSet(out2)
					}
				}
			}()
			e.line(fmt.Sprintf("(c20.reconcile %s %s %s %s %s)", quote(id), sexpTypeRef(tr), sexpSet(set), res, again))
		}
	}
}

// A history built to nest ownership across versions: updaters at randomly chosen versions
// create an item (or map entry), a field beneath it, and an unrelated field the applier
// never applies; an applier co-owns the items and then re-applies a smaller configuration,
// possibly at another version, so that pruning must add back a field owned at one version
// beneath an item owned only at another, with a further version that has nothing to add.
// The multi-version run is compared with its single-version replay after every step.
type nstep struct {
	mgr, ver string
	apply    bool
	obj      interface{} // base-version content to merge into the live object (update) or to apply
}

func nestingSteps(e *emitter) []nstep {
	pick := func() string { return []string{"v1", "v2", "v3"}[e.rng.Intn(3)] }
	useMap := e.rng.Intn(2) == 0
	nItems := 1 + e.rng.Intn(2)
	itemObj := func(k string, fields M) interface{} {
		if useMap {
			ent := M{"dd": "s"}
			for f, v := range fields {
				ent[f] = v
			}
			return M{"mm": M{"k" + k: ent}}
		}
		it := M{"name": k}
		for f, v := range fields {
			if f == "cc" {
				it["st"] = M{"cc": v}
			} else {
				it[f] = v
			}
		}
		return M{"items": L{it}}
	}
	var steps []nstep
	full := interface{}(M{})
	ups := []string{"u", "w", "x1", "x2"}
	upVer := map[string]string{} // each updater identity keeps one version
	for _, u := range ups {
		upVer[u] = pick()
	}
	for i := 0; i < nItems; i++ {
		k := []string{"a", "b"}[i]
		u1 := ups[e.rng.Intn(4)]
		steps = append(steps, nstep{u1, upVer[u1], false, itemObj(k, M{})})
		fo := itemObj(k, M{"cc": int64(1 + i)})
		if !useMap && e.rng.Intn(2) == 0 {
			fo = itemObj(k, M{"vv": int64(3)})
		}
		u2 := ups[e.rng.Intn(4)]
		steps = append(steps, nstep{u2, upVer[u2], false, fo})
		full = mergeTop(full, fo)
	}
	// something the applier never applies, owned at yet another version
	u3 := ups[e.rng.Intn(4)]
	steps = append(steps, nstep{u3, upVer[u3], false, M{"aa": int64(5)}})
	steps = append(steps, nstep{"a", pick(), true, full})
	small := interface{}(M{"sset": L{"z"}})
	if nItems == 2 && e.rng.Intn(2) == 0 {
		small = itemObj("a", M{}) // keep one item, abandon the other
	}
	steps = append(steps, nstep{"a", pick(), true, small})
	return steps
}

// The hollow variant: structs owned as (empty) leaves at different versions with an empty
// list beneath them -- nodes of the object that no field set mentions.  (On such a state
// the add-back loop as first repaired did not terminate, and what it left depended on the
// order of the versions: findings F20, F22.)
func hollowSteps(e *emitter, viaUpdates bool) []nstep {
	vs := []string{"v1", "v2", "v3"}
	e.rng.Shuffle(3, func(i, j int) { vs[i], vs[j] = vs[j], vs[i] })
	if viaUpdates {
		// plain configurations only: the empty containers are written by updaters (each
		// keeping one version), the applier applies plain configurations
		return []nstep{
			{"u", vs[0], false, M{"st": M{}}},
			{"w", vs[1], false, M{"st": M{"nn": M{}}}},
			{"c", vs[2], true, M{"st": M{"nn": M{"ee": int64(1)}}}},
			{"x1", vs[e.rng.Intn(3)], false, M{"st": M{"nn": M{"ee": int64(1), "ff": L{}}}}},
			{"c", vs[2], true, M{"aa": int64(1)}},
			{"c", vs[2], true, M{"sset": L{"z"}}},
		}
	}
	inner := M{"ee": int64(1), "ff": L{}}
	return []nstep{
		{"a", vs[0], true, M{"st": M{}}},
		{"b", vs[1], true, M{"st": M{"nn": M{}}}},
		{"c", vs[2], true, M{"st": M{"nn": inner}}},
		{"c", vs[2], true, M{"aa": int64(1)}},
		{"b", vs[1], true, M{"sset": L{"z"}}},
	}
}

func runNestingScenario(e *emitter, multi, single *histConf) {
	steps := nestingSteps(e)
	if e.rng.Intn(6) == 0 {
		// C20 is stated for histories of plain configurations
		steps = hollowSteps(e, true)
	}
	stm := newState(multi, "v1")
	sts := newState(single, "v1")
	for _, s := range steps {
		if s.apply {
			vObj := convertUnstructured(multi, "v1", s.ver, s.obj)
			tv := multi.typedAt(s.ver, vObj, false)
			tv1 := single.typedAt("v1", s.obj, false)
			if tv == nil || tv1 == nil {
				return
			}
			stm = emitApply(e, multi, stm, s.mgr, s.ver, vObj, tv)
			sts = emitApplyQuiet(single, sts, s.mgr, "v1", tv1)
		} else {
			// an update submits the whole object: the live object with the new content merged in
			live, ok := stm.liveAt(multi, "v1")
			if !ok {
				return
			}
			whole := mergeTop(unstructuredOf(live), s.obj)
			wv := convertUnstructured(multi, "v1", s.ver, whole)
			tv := multi.typedAt(s.ver, wv, true)
			tv1 := single.typedAt("v1", whole, true)
			if tv == nil || tv1 == nil {
				return
			}
			stm = emitUpdate(e, multi, stm, s.mgr, s.ver, wv, tv)
			res := runUpdate(single, sts, s.mgr, "v1", tv1, -1)
			if res.ok() {
				sts = &hstate{live: res.obj, liveVer: "v1", managed: res.managed}
			}
		}
		lm, ok := stm.liveAt(multi, "v1")
		if !ok {
			return
		}
		e.line(fmt.Sprintf("(c20.sim %s %s %s %s %s)", quote(multi.id), sexpTV("v1", lm), sexpManaged(stm.managed), sexpTV("v1", sts.live), sexpManaged(sts.managed)))
	}
}

func copyItems(items map[string]M) map[string]M {
	out := map[string]M{}
	for k, v := range items {
		out[k] = deepCopy(v).(M)
	}
	return out
}

// shallow-deep merge of two unstructured objects (right wins), for building update objects
func mergeTop(a, b interface{}) interface{} {
	am, ok1 := a.(M)
	bm, ok2 := b.(M)
	if !ok1 || !ok2 {
		if b == nil {
			return a
		}
		return b
	}
	out := deepCopy(am).(M)
	for k, v := range bm {
		if cur, ok := out[k]; ok {
			if cl, ok := cur.(L); ok {
				if vl, ok := v.(L); ok {
					// union of keyed items by name
					res := deepCopy(cl).(L)
					for _, it := range vl {
						found := false
						for i, old := range res {
							if om, ok := old.(M); ok {
								if im, ok := it.(M); ok && om["name"] == im["name"] {
									res[i] = mergeTop(om, im)
									found = true
								}
							}
						}
						if !found {
							res = append(res, it)
						}
					}
					out[k] = res
					continue
				}
			}
			out[k] = mergeTop(cur, v)
		} else {
			out[k] = v
		}
	}
	return out
}
