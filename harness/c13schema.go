package main

import (
	"fmt"

	"sigs.k8s.io/structured-merge-diff/v6/typed"
	"sigs.k8s.io/yaml"
)

// schema documents, valid and corrupted, against the schema of schemas: NewParser must
// accept exactly the documents that conform to it
func genC13SchemaDocs(e *emitter, tier string) {
	docs := []string{kitchenYAML, smallYAML, deducedYAML}
	n := 60
	if tier == "thorough" {
		n = 1500
	}
	for _, d := range docs {
		emitSchemaDoc(e, d)
	}
	for i := 0; i < n; i++ {
		var v interface{}
		if err := yaml.Unmarshal([]byte(docs[e.rng.Intn(len(docs))]), &v); err != nil {
			panic(err)
		}
		c := corrupt(e.rng, normalizeYAML(v))
		b, err := yaml.Marshal(c)
		if err != nil {
			continue
		}
		emitSchemaDoc(e, string(b))
	}
}

func normalizeYAML(v interface{}) interface{} {
	switch t := v.(type) {
	case map[string]interface{}:
		out := M{}
		for k, x := range t {
			out[k] = normalizeYAML(x)
		}
		return out
	case []interface{}:
		out := L{}
		for _, x := range t {
			out = append(out, normalizeYAML(x))
		}
		return out
	case float64:
		if t == float64(int64(t)) {
			return int64(t)
		}
		return t
	}
	return v
}

func emitSchemaDoc(e *emitter, doc string) {
	var v interface{}
	if err := yaml.Unmarshal([]byte(doc), &v); err != nil {
		return
	}
	v = normalizeYAML(v)
	ok := "f"
	func() {
		defer func() {
			if r := recover(); r != nil {
				ok = "panic"
			}
		}()
		if _, err := typed.NewParser(typed.YAMLObject(doc)); err == nil {
			ok = "t"
		}
	}()
	e.line(fmt.Sprintf("(c13.validate \"ss\" %s f %s %s)", sexpTypeRef(nameRef("schema")), sexpValue(v), ok))
}
