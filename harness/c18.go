package main

import (
	"bytes"
	"encoding/base64"
	"encoding/json"
	"fmt"
	"math/rand"
	"reflect"
	"strings"

	"sigs.k8s.io/structured-merge-diff/v6/value"
)

func init() { generators["C18"] = genC18 }

// named struct types usable as embedded (inline) fields
type InnerA struct {
	IA int64  `json:"ia"`
	IS string `json:"is,omitempty"`
}
type InnerB struct {
	IB bool     `json:"ib,omitempty"`
	IL []string `json:"il,omitempty"`
}

// deeper inline nesting: the fields of InnerA are reached through two and three embeddings
type InnerC struct {
	InnerA `json:",inline"`
	IC     string `json:"ic"`
}
type InnerD struct {
	InnerC  `json:",inline"`
	*InnerB `json:",inline"`
	ID      int64 `json:"id,omitempty"`
}

type gtypeS struct {
	rt   reflect.Type
	sexp string
}

var leafTypes = []gtypeS{
	{reflect.TypeOf(false), "bool"}, {reflect.TypeOf(int64(0)), "int"}, {reflect.TypeOf(int32(0)), "int"}, {reflect.TypeOf(int(0)), "int"},
	{reflect.TypeOf(uint32(0)), "int"}, {reflect.TypeOf(float64(0)), "float"}, {reflect.TypeOf(float32(0)), "float"},
	{reflect.TypeOf(""), "string"}, {reflect.TypeOf([]byte{}), "bytes"}, {reflect.TypeOf((*interface{})(nil)).Elem(), "iface"},
}

func structSexp(t reflect.Type) string {
	// sexp of a compile-time struct type (InnerA / InnerB)
	var sb strings.Builder
	sb.WriteString("(struct")
	for i := 0; i < t.NumField(); i++ {
		f := t.Field(i)
		sb.WriteString(" " + fieldSexp(f, typeSexp(f.Type)))
	}
	sb.WriteString(")")
	return sb.String()
}

func typeSexp(t reflect.Type) string {
	switch t.Kind() {
	case reflect.Bool:
		return "bool"
	case reflect.Int, reflect.Int64, reflect.Int32, reflect.Uint32:
		return "int"
	case reflect.Float64, reflect.Float32:
		return "float"
	case reflect.String:
		return "string"
	case reflect.Slice:
		if t.Elem().Kind() == reflect.Uint8 {
			return "bytes"
		}
		return "(slice " + typeSexp(t.Elem()) + ")"
	case reflect.Map:
		return "(map " + typeSexp(t.Elem()) + ")"
	case reflect.Ptr:
		return "(ptr " + typeSexp(t.Elem()) + ")"
	case reflect.Interface:
		return "iface"
	case reflect.Struct:
		return structSexp(t)
	}
	panic("typeSexp: " + t.String())
}

func fieldSexp(f reflect.StructField, tsexp string) string {
	tag := f.Tag.Get("json")
	name, opts := tag, ""
	if i := strings.Index(tag, ","); i >= 0 {
		name, opts = tag[:i], tag[i+1:]
	}
	has := func(o string) bool {
		for _, x := range strings.Split(opts, ",") {
			if x == o {
				return true
			}
		}
		return false
	}
	skip := tag == "-"
	if skip {
		name = ""
	}
	return fmt.Sprintf("(field %s %s %s %s %s %s %s %s)", quote(f.Name), quote(name), sexpBool(skip), sexpBool(has("inline")),
		sexpBool(has("omitempty")), sexpBool(has("omitzero")), sexpBool(f.Anonymous), tsexp)
}

func genGoType(r *rand.Rand, depth int, outside bool) reflect.Type {
	k := r.Intn(14)
	if depth <= 0 && k >= 10 {
		k = r.Intn(10)
	}
	switch {
	case k < 10:
		return leafTypes[r.Intn(len(leafTypes))].rt
	case k == 10:
		e := genGoType(r, depth-1, outside)
		if !outside && (e.Kind() == reflect.Ptr || e.Kind() == reflect.Interface) {
			e = reflect.TypeOf(int64(0))
		}
		return reflect.PtrTo(e)
	case k == 11:
		return reflect.SliceOf(genGoType(r, depth-1, outside))
	case k == 12:
		return reflect.MapOf(reflect.TypeOf(""), genGoType(r, depth-1, outside))
	default:
		return genStructType(r, depth-1, outside)
	}
}

func genStructType(r *rand.Rand, depth int, outside bool) reflect.Type {
	n := 1 + r.Intn(4)
	var fields []reflect.StructField
	used := map[string]bool{}
	for i := 0; i < n; i++ {
		name := fmt.Sprintf("F%d", i)
		ft := genGoType(r, depth, outside)
		jn := []string{"aa", "bb", "cc", "", "dd"}[r.Intn(5)]
		if jn != "" && used[jn] {
			jn = ""
		}
		used[jn] = true
		var opts []string
		if r.Intn(3) == 0 {
			opts = append(opts, "omitempty")
		}
		if r.Intn(4) == 0 {
			opts = append(opts, "omitzero")
		}
		tag := jn
		if len(opts) > 0 {
			tag += "," + strings.Join(opts, ",")
		}
		if r.Intn(12) == 0 {
			tag = "-"
		}
		fields = append(fields, reflect.StructField{Name: name, Type: ft, Tag: reflect.StructTag(`json:"` + tag + `"`)})
	}
	// an embedded named struct (or pointer to it) tagged inline
	if r.Intn(3) == 0 {
		it := reflect.TypeOf(InnerA{})
		nm := "InnerA"
		switch r.Intn(5) {
		case 0, 1:
			it, nm = reflect.TypeOf(InnerB{}), "InnerB"
		case 2:
			it, nm = reflect.TypeOf(InnerC{}), "InnerC"
		case 3:
			it, nm = reflect.TypeOf(InnerD{}), "InnerD"
		}
		if r.Intn(2) == 0 {
			it = reflect.PtrTo(it)
		}
		fields = append(fields, reflect.StructField{Name: nm, Type: it, Anonymous: true, Tag: `json:",inline"`})
	}
	return reflect.StructOf(fields)
}

var ifaceAlphabet = []interface{}{nil, int64(1), 1.5, "s", true, map[string]interface{}{"k": int64(1)}, []interface{}{"a", int64(2)},
	map[string]interface{}{}, []interface{}{}, map[string]interface{}{"m": map[string]interface{}{"n": nil}}}

func fillValue(r *rand.Rand, v reflect.Value, depth int) {
	switch v.Kind() {
	case reflect.Bool:
		v.SetBool(r.Intn(2) == 0)
	case reflect.Int, reflect.Int64, reflect.Int32:
		v.SetInt(int64(r.Intn(4)) - 1)
	case reflect.Uint32:
		v.SetUint(uint64(r.Intn(3)))
	case reflect.Float64, reflect.Float32:
		v.SetFloat([]float64{0, 0.5, 1.5, 2, -1}[r.Intn(5)])
	case reflect.String:
		v.SetString([]string{"", "a", "b\"c"}[r.Intn(3)])
	case reflect.Slice:
		if r.Intn(4) == 0 {
			return // nil
		}
		n := r.Intn(3)
		s := reflect.MakeSlice(v.Type(), n, n)
		for i := 0; i < n; i++ {
			fillValue(r, s.Index(i), depth-1)
		}
		v.Set(s)
	case reflect.Map:
		if r.Intn(4) == 0 {
			return
		}
		m := reflect.MakeMap(v.Type())
		for i := 0; i < r.Intn(3); i++ {
			e := reflect.New(v.Type().Elem()).Elem()
			fillValue(r, e, depth-1)
			m.SetMapIndex(reflect.ValueOf([]string{"ka", "kb", "kc"}[r.Intn(3)]), e)
		}
		v.Set(m)
	case reflect.Ptr:
		if r.Intn(3) == 0 {
			return
		}
		p := reflect.New(v.Type().Elem())
		fillValue(r, p.Elem(), depth-1)
		v.Set(p)
	case reflect.Interface:
		x := ifaceAlphabet[r.Intn(len(ifaceAlphabet))]
		if x != nil {
			v.Set(reflect.ValueOf(x))
		}
	case reflect.Struct:
		if r.Intn(5) == 0 {
			return // the zero struct (what omitzero looks at)
		}
		for i := 0; i < v.NumField(); i++ {
			fillValue(r, v.Field(i), depth-1)
		}
	}
}

// a variant of a filled value: the same data except that, here and there, a nil slice or
// map becomes an empty one or the other way round, a nil pointer a pointer to the zero
// value, or a leaf changes
func varyValue(r *rand.Rand, v reflect.Value, depth int) {
	switch v.Kind() {
	case reflect.Slice:
		if v.Len() == 0 && r.Intn(2) == 0 {
			if v.IsNil() {
				v.Set(reflect.MakeSlice(v.Type(), 0, 0))
			} else {
				v.Set(reflect.Zero(v.Type()))
			}
			return
		}
		for i := 0; i < v.Len(); i++ {
			varyValue(r, v.Index(i), depth-1)
		}
	case reflect.Map:
		if v.Len() == 0 && r.Intn(2) == 0 {
			if v.IsNil() {
				v.Set(reflect.MakeMap(v.Type()))
			} else {
				v.Set(reflect.Zero(v.Type()))
			}
		}
	case reflect.Ptr:
		if !v.IsNil() {
			varyValue(r, v.Elem(), depth-1)
		}
	case reflect.Struct:
		for i := 0; i < v.NumField(); i++ {
			varyValue(r, v.Field(i), depth-1)
		}
	case reflect.Interface:
	default:
		if r.Intn(8) == 0 {
			fillValue(r, v, depth)
		}
	}
}

func deepCopyReflect(v reflect.Value) reflect.Value {
	out := reflect.New(v.Type()).Elem()
	switch v.Kind() {
	case reflect.Slice:
		if !v.IsNil() {
			s := reflect.MakeSlice(v.Type(), v.Len(), v.Len())
			for i := 0; i < v.Len(); i++ {
				s.Index(i).Set(deepCopyReflect(v.Index(i)))
			}
			out.Set(s)
		}
	case reflect.Map:
		if !v.IsNil() {
			m := reflect.MakeMap(v.Type())
			it := v.MapRange()
			for it.Next() {
				m.SetMapIndex(it.Key(), deepCopyReflect(it.Value()))
			}
			out.Set(m)
		}
	case reflect.Ptr:
		if !v.IsNil() {
			p := reflect.New(v.Type().Elem())
			p.Elem().Set(deepCopyReflect(v.Elem()))
			out.Set(p)
		}
	case reflect.Struct:
		for i := 0; i < v.NumField(); i++ {
			out.Field(i).Set(deepCopyReflect(v.Field(i)))
		}
	default:
		out.Set(v)
	}
	return out
}

// pairs of reflected values of one generated Go type (inside the family): equality and
// ordering on the reflected representation, with the generic views of both
func emitReflectPairs(e *emitter, n int) {
	for k := 0; k < n; k++ {
		rt := genStructType(e.rng, 3, false)
		pa := reflect.New(rt)
		fillValue(e.rng, pa.Elem(), 4)
		pb := reflect.New(rt)
		if e.rng.Intn(3) == 0 {
			fillValue(e.rng, pb.Elem(), 4)
		} else {
			pb.Elem().Set(deepCopyReflect(pa.Elem()))
			varyValue(e.rng, pb.Elem(), 4)
		}
		func() {
			defer func() { recover() }()
			ra, err := value.NewValueReflect(pa.Interface())
			if err != nil {
				return
			}
			rb, err := value.NewValueReflect(pb.Interface())
			if err != nil {
				return
			}
			ua := normUnstructured(ra.Unstructured())
			ub := normUnstructured(rb.Unstructured())
			fa := value.NewFreelistAllocator()
			eab := value.Equals(ra, rb) && value.EqualsUsing(fa, ra, rb)
			eab2 := value.Equals(ra, rb) || value.EqualsUsing(fa, ra, rb)
			if eab != eab2 {
				e.line("(rpair-allocators-disagree)")
				return
			}
			e.line(fmt.Sprintf("(rpair %s %s %s %s %d %d)", sexpValue(ua), sexpValue(ub), sexpBool(eab),
				sexpBool(value.Equals(rb, ra)), value.Compare(ra, rb), value.Compare(rb, ra)))
		}()
	}
}

func valSexp(v reflect.Value) string {
	switch v.Kind() {
	case reflect.Bool:
		return "(b " + sexpBool(v.Bool()) + ")"
	case reflect.Int, reflect.Int64, reflect.Int32:
		return fmt.Sprintf("(i %d)", v.Int())
	case reflect.Uint32:
		return fmt.Sprintf("(i %d)", v.Uint())
	case reflect.Float64, reflect.Float32:
		return "(f " + strings.TrimSuffix(strings.TrimPrefix(sexpFloat(v.Float()), "(d "), ")") + ")"
	case reflect.String:
		return "(s " + quote(v.String()) + ")"
	case reflect.Slice:
		if v.IsNil() {
			return "nil"
		}
		if v.Type().Elem().Kind() == reflect.Uint8 {
			return "(bytes " + quote(base64.StdEncoding.EncodeToString(v.Bytes())) + ")"
		}
		var sb strings.Builder
		sb.WriteString("(slice")
		for i := 0; i < v.Len(); i++ {
			sb.WriteString(" " + valSexp(v.Index(i)))
		}
		return sb.String() + ")"
	case reflect.Map:
		if v.IsNil() {
			return "nil"
		}
		keys := []string{}
		for _, k := range v.MapKeys() {
			keys = append(keys, k.String())
		}
		sortStrings(keys)
		var sb strings.Builder
		sb.WriteString("(map")
		for _, k := range keys {
			sb.WriteString(" (" + quote(k) + " " + valSexp(v.MapIndex(reflect.ValueOf(k))) + ")")
		}
		return sb.String() + ")"
	case reflect.Ptr:
		if v.IsNil() {
			return "nil"
		}
		return "(ptr " + valSexp(v.Elem()) + ")"
	case reflect.Interface:
		if v.IsNil() {
			return "nil"
		}
		return "(iface " + sexpValue(normUnstructured(v.Interface())) + ")"
	case reflect.Struct:
		var sb strings.Builder
		sb.WriteString("(struct")
		for i := 0; i < v.NumField(); i++ {
			sb.WriteString(" " + valSexp(v.Field(i)))
		}
		return sb.String() + ")"
	}
	panic("valSexp")
}

// json.Marshal followed by decoding into interface{} with int64-else-float64 numbers
func jsonView(x interface{}) (res interface{}, ok bool) {
	b, err := json.Marshal(x)
	if err != nil {
		return nil, false
	}
	d := json.NewDecoder(bytes.NewReader(b))
	d.UseNumber()
	var v interface{}
	if err := d.Decode(&v); err != nil {
		return nil, false
	}
	return numberize(v), true
}

func numberize(v interface{}) interface{} {
	switch t := v.(type) {
	case json.Number:
		if i, err := t.Int64(); err == nil {
			return i
		}
		f, _ := t.Float64()
		return f
	case map[string]interface{}:
		out := M{}
		for k, x := range t {
			out[k] = numberize(x)
		}
		return out
	case []interface{}:
		out := make(L, len(t))
		for i, x := range t {
			out[i] = numberize(x)
		}
		return out
	}
	return v
}

func genC18(e *emitter, tier string) {
	n := 1500
	if tier == "thorough" {
		n = 60000
	}
	n /= shardCount
	for k := 0; k < n; k++ {
		outside := e.rng.Intn(10) == 0 // a tenth of the types leave the family (double pointers ...)
		rt := genStructType(e.rng, 3, outside)
		pv := reflect.New(rt)
		fillValue(e.rng, pv.Elem(), 4)
		tS, vS := typeSexp(rt), valSexp(pv.Elem())
		smd, eq, cmp := "panic", "-", "-"
		jv, jok := jsonView(pv.Interface())
		jS := "err"
		if jok {
			jS = sexpValue(jv)
		}
		func() {
			defer func() { recover() }()
			rv, err := value.NewValueReflect(pv.Interface())
			if err != nil {
				smd = "err"
				return
			}
			u := normUnstructured(rv.Unstructured())
			smdS := sexpValue(u)
			if jok {
				jvv := value.NewValueInterface(jv)
				eq = sexpBool(value.Equals(rv, jvv) && value.Equals(jvv, rv) &&
					value.EqualsUsing(value.NewFreelistAllocator(), rv, jvv))
				cmp = fmt.Sprintf("%d", value.Compare(rv, jvv))
			}
			smd = smdS
		}()
		e.line(fmt.Sprintf("(c18.view %s %s %s %s %s %s)", tS, vS, smd, jS, eq, cmp))
	}
	// equality and ordering between two reflected values against their generic views
	emitReflectPairs(e, n/2)
	// Set / Delete through the Map interface
	genC18Mut(e, n/2)
	// JSON and YAML round trips of generic values
	vals := valueUniverse()
	for i := 0; i < 200; i++ {
		vals = append(vals, randomValue(e, 3))
	}
	for _, v := range vals {
		vv := value.NewValueInterface(v)
		okJ, okY := "f", "f"
		func() {
			defer func() { recover() }()
			if b, err := value.ToJSON(vv); err == nil {
				if back, err := value.FromJSON(b); err == nil && value.Equals(vv, back) && value.Equals(back, vv) {
					okJ = "t"
				}
			}
			if b, err := value.ToYAML(vv); err == nil {
				if back, err := yamlToValue(b); err == nil && value.Equals(vv, back) && value.Equals(back, vv) {
					okY = "t"
				}
			}
		}()
		e.line(fmt.Sprintf("(c18.codec %s %s %s)", sexpValue(v), okJ, okY))
	}
}
