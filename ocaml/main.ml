(* Hand-written glue (unverified): reads one S-expression per line from stdin, hands it
   to the extracted [Model.run_case], prints one result line per case:
     OK <evals> <nontrivial> [tags...]
     FAIL <evals> <nontrivial> msg | msg | ...
   Lines starting with '#' are comments and are echoed. *)

let ascii_of_char (c : char) : Model.ascii =
  let n = Char.code c in
  let b i = (n lsr i) land 1 = 1 in
  Model.Ascii (b 0, b 1, b 2, b 3, b 4, b 5, b 6, b 7)

let char_of_ascii (a : Model.ascii) : char =
  match a with
  | Model.Ascii (b0, b1, b2, b3, b4, b5, b6, b7) ->
    let v b i = if b then 1 lsl i else 0 in
    Char.chr (v b0 0 + v b1 1 + v b2 2 + v b3 3 + v b4 4 + v b5 5 + v b6 6 + v b7 7)

let coq_string (s : string) : Model.string =
  let r = ref Model.EmptyString in
  for i = String.length s - 1 downto 0 do
    r := Model.String (ascii_of_char s.[i], !r)
  done;
  !r

let ocaml_string (s : Model.string) : string =
  let b = Buffer.create 64 in
  let rec go = function
    | Model.EmptyString -> ()
    | Model.String (a, t) -> Buffer.add_char b (char_of_ascii a); go t in
  go s; Buffer.contents b

let rec nat_to_int = function Model.O -> 0 | Model.S n -> 1 + nat_to_int n

exception Parse_error of string

(* reader: ( ) bare-atom "quoted atom with \\ \" \xHH" *)
let parse_sexp (s : string) : Model.sexp =
  let n = String.length s in
  let pos = ref 0 in
  let rec skip () =
    if !pos < n && (s.[!pos] = ' ' || s.[!pos] = '\t' || s.[!pos] = '\r' || s.[!pos] = '\n')
    then (incr pos; skip ()) in
  let hex c =
    match c with
    | '0'..'9' -> Char.code c - 48
    | 'a'..'f' -> Char.code c - 87
    | 'A'..'F' -> Char.code c - 55
    | _ -> raise (Parse_error "hex") in
  let rec item () : Model.sexp =
    skip ();
    if !pos >= n then raise (Parse_error "eof");
    match s.[!pos] with
    | '(' ->
      incr pos;
      let items = ref [] in
      let rec loop () =
        skip ();
        if !pos >= n then raise (Parse_error "eof in list");
        if s.[!pos] = ')' then incr pos
        else (items := item () :: !items; loop ()) in
      loop ();
      Model.SList (List.rev !items)
    | ')' -> raise (Parse_error "unexpected )")
    | '"' ->
      incr pos;
      let b = Buffer.create 16 in
      let rec loop () =
        if !pos >= n then raise (Parse_error "eof in string");
        match s.[!pos] with
        | '"' -> incr pos
        | '\\' ->
          if !pos + 1 >= n then raise (Parse_error "escape");
          (match s.[!pos + 1] with
           | 'x' ->
             if !pos + 3 >= n then raise (Parse_error "escape");
             Buffer.add_char b (Char.chr (16 * hex s.[!pos + 2] + hex s.[!pos + 3]));
             pos := !pos + 4
           | c -> Buffer.add_char b c; pos := !pos + 2);
          loop ()
        | c -> Buffer.add_char b c; incr pos; loop () in
      loop ();
      Model.SAtom (coq_string (Buffer.contents b))
    | _ ->
      let start = !pos in
      while !pos < n && (match s.[!pos] with ' ' | '\t' | '\r' | '\n' | '(' | ')' | '"' -> false | _ -> true)
      do incr pos done;
      Model.SAtom (coq_string (String.sub s start (!pos - start))) in
  let r = item () in
  skip ();
  if !pos <> n then raise (Parse_error "trailing input");
  r

let () =
  let st = ref Model.ds_init in
  let lineno = ref 0 in
  (* diagnostic: print the model's own results for history cases on stderr *)
  let explain = (try Sys.getenv "VERIF_EXPLAIN" <> "" with Not_found -> false) in
  (try
     while true do
       let line = input_line stdin in
       incr lineno;
       if String.length line = 0 then ()
       else if line.[0] = '#' then print_endline line
       else begin
         match (try Ok (parse_sexp line) with Parse_error m -> Error m) with
         | Error m -> Printf.printf "FAIL 0 0 bad-case parse error line %d: %s\n" !lineno m
         | Ok sx ->
           if explain then
             List.iter (fun m -> prerr_endline (Printf.sprintf "line %d %s" !lineno (ocaml_string m)))
               (Model.explain_case !st sx);
           let (st', o) = Model.run_case !st sx in
           st := st';
           let msgs = List.map ocaml_string o.Model.o_msgs in
           let tags = String.concat " " (List.map ocaml_string o.Model.o_tags) in
           let ev = nat_to_int o.Model.o_evals and nt = nat_to_int o.Model.o_nt in
           if msgs = [] then Printf.printf "OK %d %d %s\n" ev nt tags
           else Printf.printf "FAIL %d %d %s\n" ev nt (String.concat " | " msgs)
       end
     done
   with End_of_file -> ());
  flush stdout
