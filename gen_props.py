#!/usr/bin/env python3
"""Helper (not used by any check): prints 'Theorem NAME : <statement>. Proof. exact LEMMA. Qed.'
blocks with the statement text obtained from coqtop, for pasting into Properties/*.v."""
import subprocess, sys, re
def stmt(imports, lemma):
    src = imports + "\nSet Printing Width 96.\nSet Printing Depth 1000.\nCheck (%s).\n" % lemma
    out = subprocess.run(["coqtop", "-Q", __import__("os").environ.get("COQROOT", "/verif/coq"), "SMD", "-quiet"], input=src, text=True, capture_output=True).stdout
    m = re.search(re.escape(lemma.split('.')[-1]) + r"\s*\n?\s*:\s(.*?)(?=\n\s*\nCoq <|\nCoq <|\Z)", out, re.S)
    return m.group(1).strip()
if __name__ == "__main__":
    imports = open(sys.argv[1]).read()
    for spec in sys.argv[2:]:
        name, lemma = spec.split("=")
        t = stmt(imports, lemma)
        print("Theorem %s :\n  %s.\nProof. exact %s. Qed.\nPrint Assumptions %s.\n" % (name, t.replace("\n", "\n  "), lemma, name))
